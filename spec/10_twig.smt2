; ---- specification functions taken from the property statements (DESIGN.md Appendix B)

; C19: Twig's slice index rules. n = number of elements, start, hasLen/length as written.
(define-fun twigLo ((n Int) (start Int)) Int
  (ite (< start 0) (imax 0 (+ n start)) (imin start n)))
(define-fun twigHi ((n Int) (start Int) (hasLen Bool) (length Int)) Int
  (ite (not hasLen) n
    (ite (>= length 0) (imin n (+ (twigLo n start) length))
                       (imax (twigLo n start) (+ n length)))))
; result r of slicing string v (by runes) / list s
(define-fun sliceStrSpec ((v Str) (start Int) (hasLen Bool) (length Int) (r Str)) Bool
  (let ((n (runecount v)))
  (let ((lo (twigLo n start)) (hi (twigHi n start hasLen length)))
    (ite (<= hi lo) (= (slen r) 0)
         (= r (str_of_runes (runes_of v) lo (- hi lo)))))))
(define-fun sliceListSpec ((s Slice) (start Int) (hasLen Bool) (length Int) (r Slice)) Bool
  (let ((n (s.len s)))
  (let ((lo (twigLo n start)) (hi (twigHi n start hasLen length)))
    (ite (<= hi lo) (= (s.len r) 0)
         (and (= (s.arr r) (s.arr s)) (= (s.off r) (+ (s.off s) lo)) (= (s.len r) (- hi lo)))))))

; C13: dash classes of delimiter token types (numbers are the values of the TOKEN_* constants;
; the contract of isBlockEndToken re-states them against the package constants as a canary)
(define-fun cls ((t Int)) Int
  (ite (= t 13) 1      ; VAR_START_TRIM   ~ VAR_START
  (ite (= t 14) 2      ; VAR_END_TRIM     ~ VAR_END
  (ite (= t 15) 3      ; BLOCK_START_TRIM ~ BLOCK_START
  (ite (= t 16) 4      ; BLOCK_END_TRIM   ~ BLOCK_END
   t)))))

; C17: wraps(a, b) — the cause b can be found from a with errors.Is/errors.As (reflexive, transitive)
(declare-fun wraps (Iface Iface) Bool)
; reflexivity and transitivity are instantiated by the generator where they are needed (at each
; return and at each wrapper call) instead of being asserted as quantified axioms
(declare-fun errIs (Iface Iface) Bool)

; C06: the security policy is an arbitrary predicate over names ("every policy")
(declare-fun allowedFilter (Iface Str) Bool)
(declare-fun allowedFunction (Iface Str) Bool)

; ---- output/evaluation trace (ghost `tr`): abstract events in program order.
; emitRender(t, node, ctx): node (an interface value) was rendered in context ctx
; emitEval(t, node, ctx):   node was evaluated in ctx; evalRes gives the value that evaluation yields
(declare-sort Tr 0)
(declare-fun emitRender (Tr Iface Int) Tr)
(declare-fun emitEval (Tr Iface Int) Tr)
(declare-fun emitText (Tr Str) Tr)
(declare-fun evalRes (Tr Iface Int) Iface)
(declare-fun fn_toBool_0 (Int Iface) Bool) ; the value of (*RenderContext).toBool (a deterministic function, see its contract)

; evalsUpTo(t, a, o, k, c): trace after evaluating a[o..o+k) in order
(declare-fun evalsUpTo (Tr (Array Int Iface) Int Int Int) Tr)
(assert (forall ((t Tr) (a (Array Int Iface)) (o Int) (c Int)) (! (= (evalsUpTo t a o 0 c) t) :pattern ((evalsUpTo t a o 0 c)))))
(assert (forall ((t Tr) (a (Array Int Iface)) (o Int) (k Int) (c Int)) (! (=> (> k 0) (= (evalsUpTo t a o k c) (emitEval (evalsUpTo t a o (- k 1) c) (select a (+ o (- k 1))) c))) :pattern ((evalsUpTo t a o k c)))))

; rendersUpTo(t, a, o, k, c): trace after rendering a[o..o+k) in order
(declare-fun rendersUpTo (Tr (Array Int Iface) Int Int Int) Tr)
(assert (forall ((t Tr) (a (Array Int Iface)) (o Int) (c Int)) (! (= (rendersUpTo t a o 0 c) t) :pattern ((rendersUpTo t a o 0 c)))))
(assert (forall ((t Tr) (a (Array Int Iface)) (o Int) (k Int) (c Int)) (! (=> (> k 0) (= (rendersUpTo t a o k c) (emitRender (rendersUpTo t a o (- k 1) c) (select a (+ o (- k 1))) c))) :pattern ((rendersUpTo t a o k c)))))

; falsyUpTo(t, a, o, k, c): the first k evaluations all gave falsy values
(declare-fun falsyUpTo (Tr (Array Int Iface) Int Int Int) Bool)
(assert (forall ((t Tr) (a (Array Int Iface)) (o Int) (c Int)) (! (falsyUpTo t a o 0 c) :pattern ((falsyUpTo t a o 0 c)))))
(assert (forall ((t Tr) (a (Array Int Iface)) (o Int) (k Int) (c Int)) (! (=> (> k 0) (= (falsyUpTo t a o k c) (and (falsyUpTo t a o (- k 1) c) (not (fn_toBool_0 c (evalRes (evalsUpTo t a o (- k 1) c) (select a (+ o (- k 1))) c)))))) :pattern ((falsyUpTo t a o k c)))))

; C07: escUpTo(s, k, amp, lt, gt, quot, apos): the escape of the first k bytes of s — each of the five
; HTML-significant bytes is replaced by its character reference (passed in), every other byte is
; copied; the references used are those of the fixed five-entry table of the statement
(declare-fun str_of_byte (Int) Str)
(define-fun escImg ((b Int) (amp Str) (lt Str) (gt Str) (quot Str) (apos Str)) Str
  (ite (= b 38) amp (ite (= b 60) lt (ite (= b 62) gt (ite (= b 34) quot (ite (= b 39) apos (str_of_byte b)))))))
(declare-fun escUpTo (Str Int Str Str Str Str Str) Str)
(assert (forall ((s Str) (a Str) (l Str) (g Str) (q Str) (p Str)) (! (= (slen (escUpTo s 0 a l g q p)) 0) :pattern ((escUpTo s 0 a l g q p)))))
(assert (forall ((x Str) (y Str)) (! (=> (and (= (slen x) 0) (= (slen y) 0)) (= x y)) :pattern ((slen x) (slen y)))))
(assert (forall ((s Str) (k Int) (a Str) (l Str) (g Str) (q Str) (p Str)) (! (=> (> k 0) (= (escUpTo s k a l g q p) (sconcat (escUpTo s (- k 1) a l g q p) (escImg (sat s (- k 1)) a l g q p)))) :pattern ((escUpTo s k a l g q p)))))

; html.EscapeString as an uninterpreted function of its argument (validated only by bounded runs)
(declare-fun htmlEscape (Str) Str)

; C16: items of a byte stream (see govc/streams.go)
(declare-datatypes ((Item 0)) (((iU8 (u8val Int)) (iU16 (u16val Int)) (iU32 (u32val Int)) (iI32 (i32val Int)) (iI64 (i64val Int)) (iU64 (u64val Int)) (iBytes (bytesval Str)))))
(assert (forall ((s Str)) (! (= (str_of_bytes (bytes_of s) 0 (slen s)) s) :pattern ((bytes_of s)))))
(define-fun isU8 ((x Item)) Bool ((_ is iU8) x))
(define-fun isU32 ((x Item)) Bool ((_ is iU32) x))
(define-fun isI64 ((x Item)) Bool ((_ is iI64) x))
(define-fun isBytes ((x Item)) Bool ((_ is iBytes) x))

; C15: loader events. emitLoad(t, loader, name): loader was asked for name; loadErr gives the error it
; answered with (nil = it has the template), loadSrc the source it returned
(declare-fun emitLoad (Tr Iface Str) Tr)
(declare-fun loadErr (Tr Iface Str) Iface)
(declare-fun loadSrc (Tr Iface Str) Str)
(declare-fun mtimeOf (Iface Str) Int)
(declare-fun mtimeErr (Iface Str) Iface)

; loadsUpTo(t, a, o, k, n): trace after asking loaders a[o..o+k) in order for n
(declare-fun loadsUpTo (Tr (Array Int Iface) Int Int Str) Tr)
(assert (forall ((t Tr) (a (Array Int Iface)) (o Int) (n Str)) (! (= (loadsUpTo t a o 0 n) t) :pattern ((loadsUpTo t a o 0 n)))))
(assert (forall ((t Tr) (a (Array Int Iface)) (o Int) (k Int) (n Str)) (! (=> (> k 0) (= (loadsUpTo t a o k n) (emitLoad (loadsUpTo t a o (- k 1) n) (select a (+ o (- k 1))) n))) :pattern ((loadsUpTo t a o k n)))))

; missUpTo(t, a, o, k, n): the first k loaders all answered with an error
(declare-fun missUpTo (Tr (Array Int Iface) Int Int Str) Bool)
(assert (forall ((t Tr) (a (Array Int Iface)) (o Int) (n Str)) (! (missUpTo t a o 0 n) :pattern ((missUpTo t a o 0 n)))))
(assert (forall ((t Tr) (a (Array Int Iface)) (o Int) (k Int) (n Str)) (! (=> (> k 0) (= (missUpTo t a o k n) (and (missUpTo t a o (- k 1) n) (distinct (loadErr (loadsUpTo t a o (- k 1) n) (select a (+ o (- k 1))) n) (mk-iface 0 0))))) :pattern ((missUpTo t a o k n)))))

; ---- variable lookup events (C11): emitLookup(t, ctx, name) is the event "name was looked up in ctx";
; lookRes / lookErr name what that lookup yields (abstraction, no assumption)
(declare-fun emitLookup (Tr Int Str) Tr)
(declare-fun lookRes (Tr Int Str) Iface)
(declare-fun lookErr (Tr Int Str) Iface)

; ---- filter application events (C07): emitFilter(t, ctx, name, value, args) is the event "the
; filter called name was applied to value with args in ctx"; filterRes / filterErr name what that
; application yields (abstraction, no assumption). The last event of a trace can be inspected.
(declare-fun emitFilter (Tr Int Str Iface Slice) Tr)
(declare-fun filterRes (Tr Int Str Iface Slice) Iface)
(declare-fun filterErr (Tr Int Str Iface Slice) Iface)
(declare-fun isFilterEvent (Tr) Bool)
(declare-fun lastFilterName (Tr) Str)
(declare-fun lastFilterCtx (Tr) Int)
(declare-fun lastFilterVal (Tr) Iface)
(declare-fun lastFilterRes (Tr) Iface)
(assert (forall ((t Tr) (c Int) (n Str) (v Iface) (a Slice)) (! (and (isFilterEvent (emitFilter t c n v a)) (= (lastFilterName (emitFilter t c n v a)) n) (= (lastFilterCtx (emitFilter t c n v a)) c) (= (lastFilterVal (emitFilter t c n v a)) v) (= (lastFilterRes (emitFilter t c n v a)) (filterRes t c n v a))) :pattern ((emitFilter t c n v a)))))

; ---- macro lookup events (C12): emitMacroLookup(t, ctx, name) is the event "the macro called name was
; looked up in ctx"; macroRes / macroFound name what that lookup yields (abstraction, no assumption)
(declare-fun emitMacroLookup (Tr Int Str) Tr)
(declare-fun macroRes (Tr Int Str) Iface)
(declare-fun macroFound (Tr Int Str) Bool)

; ---- the decimal form of an integer (C07, C19, C20: what a number prints as). Named, not interpreted.
(declare-fun decimal (Int) Str)
