; ---- uninterpreted views of Go strings/slices used by the executor (no Seq/String theory)
(declare-fun runecount (Str) Int)
(declare-fun runes_of (Str) (Array Int Int))
(declare-fun bytes_of (Str) (Array Int Int))
(declare-fun str_of_runes ((Array Int Int) Int Int) Str)
(declare-fun str_of_bytes ((Array Int Int) Int Int) Str)
(declare-fun str_of_rune (Int) Str)
(declare-fun substr (Str Int Int) Str)
(declare-fun sconcat (Str Str) Str)
(declare-fun str_lt (Str Str) Bool)
(define-fun subslice ((s Slice) (lo Int) (hi Int)) Slice (mk-slice (s.arr s) (+ (s.off s) lo) (- hi lo) (- (s.cap s) lo)))
(declare-fun str_contains (Str Str) Bool)
(declare-fun str_trimleft (Str Str) Str)
(declare-fun str_trimright (Str Str) Str)

; ---- floating point is uninterpreted: nothing about float arithmetic is proved, only that the
; code applies the operation the contract names
(declare-fun f_add (F F) F)
(declare-fun f_sub (F F) F)
(declare-fun f_mul (F F) F)
(declare-fun f_div (F F) F)
(declare-fun f_neg (F) F)
(declare-fun f_lt (F F) Bool)
(declare-fun f_le (F F) Bool)
(declare-fun f_eq (F F) Bool)
(declare-fun i2f (Int) F)
(declare-fun f2i (F) Int)

; ---- whether values of the dynamic type with this tag may be used as map keys (comparable types);
; facts are stated per function for the type tags it mentions, tag 0 is the nil interface
(declare-fun hashable (Int) Bool)
