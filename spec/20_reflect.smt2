; ---- reflect (C05): a method found by name has an index below the number of methods of its type
(declare-fun uf_hasMethod (Iface Str) Bool)
(declare-fun ufi_methIndex (Iface Str) Int)
(declare-fun ufi_numMethod (Iface) Int)
(assert (forall ((t Iface) (a Str)) (! (=> (uf_hasMethod t a) (and (<= 0 (ufi_methIndex t a)) (< (ufi_methIndex t a) (ufi_numMethod t)))) :pattern ((ufi_methIndex t a)))))
