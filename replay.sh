#!/bin/bash
# ./replay.sh <replay.json>: shows the failed obligation and re-runs its replay recipe (if any) against /repo
cd "$(dirname "$0")"
. ./env.sh
f="$1"
[ -f "$f" ] || { echo "no such replay file: $f"; exit 2; }
python3 - "$f" <<'PY'
import json,sys
r=json.load(open(sys.argv[1]))
for k in ["property","obligation","kind","function","position","source","contract_clause","solver_verdict","solver","replay_kind","reproduced_on_real_code"]:
    print(f"{k}: {r.get(k)}")
if r.get("model"):
    print("model (parameters):")
    for k,v in sorted(r["model"].items()):
        if k.startswith("p_"): print("  ",k,"=",v)
if r.get("replay_cmd"): print("replay_cmd:", r["replay_cmd"])
if r.get("replay_transcript"): print("transcript:\n"+r["replay_transcript"][:4000])
PY
cmd=$(python3 -c "import json,sys; print(json.load(open('$f')).get('replay_cmd') or '')")
if [ -n "$cmd" ]; then echo "--- re-running: $cmd"; bash -c "$cmd"; fi
