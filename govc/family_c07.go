package main

// C07 (part): both names of the escape filter are bound to the same implementation.

import (
	"go/constant"

	"golang.org/x/tools/go/ssa"
)

func init() {
	families["C07"] = append(families["C07"], func(w *World, prop string) ([]*Obligation, []string) {
		fn := w.Funcs["(*CoreExtension).GetFilters"]
		mk := func(goal bool, comment string, in ssa.Instruction) *Obligation {
			g := "false"
			if goal {
				g = "true"
			}
			pos, src := "", ""
			if in != nil {
				pos, src = w.posAndSrc(in)
			}
			return &Obligation{Name: "(*CoreExtension).GetFilters/alias#1", Kind: "alias", Func: "(*CoreExtension).GetFilters", Pos: pos, Src: src,
				Goal: g, PC: "true", Props: []string{"C07"}, Comment: comment, Custom: "(assert " + not(g) + ")"}
		}
		if fn == nil {
			return []*Obligation{mk(false, "lost contract: GetFilters no longer exists", nil)}, nil
		}
		target := map[string]*ssa.Function{}
		recv := map[string]ssa.Value{}
		var at ssa.Instruction
		for _, b := range fn.Blocks {
			for _, in := range b.Instrs {
				mu, ok := in.(*ssa.MapUpdate)
				if !ok {
					continue
				}
				k, ok := mu.Key.(*ssa.Const)
				if !ok || k.Value == nil || k.Value.Kind() != constant.String {
					continue
				}
				name := constant.StringVal(k.Value)
				if name != "e" && name != "escape" {
					continue
				}
				at = in
				v := mu.Value
				if ct, ok := v.(*ssa.ChangeType); ok {
					v = ct.X
				}
				if mc, ok := v.(*ssa.MakeClosure); ok {
					if f, ok := mc.Fn.(*ssa.Function); ok {
						target[name] = f
						if len(mc.Bindings) == 1 {
							recv[name] = mc.Bindings[0]
						}
					}
				}
			}
		}
		ok := target["e"] != nil && target["escape"] != nil && target["e"].String() == target["escape"].String() && recv["e"] != nil && recv["e"] == recv["escape"]
		return []*Obligation{mk(ok, "the names e and escape are registered with the same method value of the same receiver", at)}, nil
	})
}
