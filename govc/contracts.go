package main

// Contract file: parsing of //@ lines and evaluation of contract expressions to SMT.

import (
	"fmt"
	"go/ast"
	"go/constant"
	"go/parser"
	"go/token"
	"go/types"
	"os"
	"regexp"
	"sort"
	"strconv"
	"strings"

	"golang.org/x/tools/go/ssa"
)

type CExpr struct {
	Text      string
	Props     []string
	ast       ast.Expr
	Line      int
	GhostOnly string // clause about this ghost only: skipped for loops that never update it
	Auto      bool   // derived by the verifier (a termination measure read off a loop guard), not written
	Tagged    bool   // the clause names its properties itself (requires[Cxx] ...)
	Global    bool   // "requires global E": E is an invariant of package-level state that holds whenever no
	// writer of that state is running: assumed at entry, not an obligation of the callers
}

type Contract struct {
	Kind          string // func, iface, functype
	Name          string
	Props         []string
	Requires      []*CExpr
	Ensures       []*CExpr
	LoopInv       map[int][]*CExpr
	LoopDec       map[int]*CExpr
	LoopStep      map[int][]*CExpr // relation between the head of an iteration and its end (uses snapshots)
	LoopEntry     map[int][]*CExpr // "loop N entry E": E holds when the loop is reached (checked there, assumed nowhere)
	LoopSnap      map[int][]*Snap  // ghost locals holding the value of an expression at the loop head
	Modifies      []*CExpr         // pointer.field expressions
	HasModifies   bool
	Assumed       bool
	Pure          bool
	ArithChecked  bool
	StringContent bool
	Nilable       map[string]bool
	NonNil        map[string]bool
	ParamNames    []string
	Flags         map[string]string
	Line          int
	Fresh         bool              // result is a fresh object
	Function      bool              // deterministic, heap-independent: calls are abstracted as fn_<name>_<k>(args)
	GhostSet      map[string]*CExpr // ghost updates performed by the callee: name -> new value
	GhostAssign   map[string]bool   // "ghostassign": the update is ghost code executed by the function at its return (nothing to prove in the body)
	AtCall        []*AtCall         // assertions at call sites inside this function
}

// Snap: "loop N snapshot NAME EXPR": NAME is, during one iteration of loop N (inner loops
// included), the value EXPR had at the head of that iteration.
type Snap struct {
	Name string
	Expr *CExpr
}

// AtCall: "atcall <callee> <expr>": at every call of callee in this function expr must hold; the
// call's arguments (receiver first) are a0, a1, ...
type AtCall struct {
	Callee   string
	Expr     *CExpr
	NoAssume bool // "finding atcall ...": the clause is a recorded finding (it does not hold), so it is
	// checked but not assumed for what follows on the path
}

type Ghost struct {
	Name string
	Sort string
	Init string // value at function entry ("" = arbitrary)
}

type ContractFile struct {
	ByName      map[string]*Contract
	Order       []*Contract
	Ghosts      []*Ghost
	Specs       map[string]*SpecFn
	Path        string
	Scan        map[string]int // counts of assumed/tolerates/trusted
	Lists       map[string][]string
	Groups      map[string]*Contract
	Applies     [][2]string // group, glob
	FileApplies [][2]string // group, file name
	specText    string
}

func (cf *ContractFile) ghost(name string) *Ghost {
	for _, g := range cf.Ghosts {
		if g.Name == name {
			return g
		}
	}
	return nil
}

type SpecFn struct {
	Name string
	Args []string
	Ret  string
}

var specSigRe = regexp.MustCompile(`\((define-fun|declare-fun|define-fun-rec)\s+([^\s()]+)\s+\(`)

// parseSpecSigs extracts signatures of functions declared in the spec prelude.
func parseSpecSigs(text string) map[string]*SpecFn {
	out := map[string]*SpecFn{}
	for _, loc := range specSigRe.FindAllStringSubmatchIndex(text, -1) {
		kind := text[loc[2]:loc[3]]
		name := text[loc[4]:loc[5]]
		// parse the parenthesised argument list starting at loc[1]-1
		i := loc[1] - 1
		args, j := readSexp(text, i)
		rest := strings.TrimSpace(text[j:])
		ret, _ := readSexp(rest, 0)
		sf := &SpecFn{Name: name, Ret: strings.TrimSpace(ret)}
		inner := strings.TrimSpace(args[1 : len(args)-1])
		if kind == "declare-fun" {
			for p := 0; p < len(inner); {
				for p < len(inner) && (inner[p] == ' ' || inner[p] == '\n' || inner[p] == '\t') {
					p++
				}
				if p >= len(inner) {
					break
				}
				s, q := readSexp(inner, p)
				sf.Args = append(sf.Args, strings.TrimSpace(s))
				p = q
			}
		} else {
			for p := 0; p < len(inner); {
				for p < len(inner) && (inner[p] == ' ' || inner[p] == '\n' || inner[p] == '\t') {
					p++
				}
				if p >= len(inner) {
					break
				}
				s, q := readSexp(inner, p) // (name Sort)
				body := strings.TrimSpace(s[1 : len(s)-1])
				_, k := readSexp(body, 0)
				sf.Args = append(sf.Args, strings.TrimSpace(body[k:]))
				p = q
			}
		}
		out[name] = sf
	}
	// single-field constructors and their accessors of declared datatypes: (ctor (acc Sort))
	for _, dt := range datatypeRe.FindAllStringSubmatch(text, -1) {
		sortName := dt[1]
		start := strings.Index(text, dt[0]) + len(dt[0])
		for _, m := range ctorRe.FindAllStringSubmatch(text[start:minInt(len(text), start+2000)], -1) {
			out[m[1]] = &SpecFn{Name: m[1], Args: []string{m[3]}, Ret: sortName}
			out[m[2]] = &SpecFn{Name: m[2], Args: []string{sortName}, Ret: m[3]}
			if strings.Contains(m[0], "\n\n") {
				break
			}
		}
	}
	return out
}

var datatypeRe = regexp.MustCompile(`\(declare-datatypes \(\((\w+) 0\)\)`)
var ctorRe = regexp.MustCompile(`\((\w+) \((\w+) (\w+)\)\)`)

func minInt(a, b int) int {
	if a < b {
		return a
	}
	return b
}

// readSexp reads one s-expression (atom or list) starting at i; returns it and the index after.
func readSexp(s string, i int) (string, int) {
	for i < len(s) && (s[i] == ' ' || s[i] == '\n' || s[i] == '\t') {
		i++
	}
	if i >= len(s) {
		return "", i
	}
	if s[i] != '(' {
		j := i
		for j < len(s) && s[j] != ' ' && s[j] != '\n' && s[j] != '\t' && s[j] != ')' && s[j] != '(' {
			j++
		}
		return s[i:j], j
	}
	d := 0
	for j := i; j < len(s); j++ {
		if s[j] == '(' {
			d++
		} else if s[j] == ')' {
			d--
			if d == 0 {
				return s[i : j+1], j + 1
			}
		}
	}
	return s[i:], len(s)
}

var clauseRe = regexp.MustCompile(`^(requires|ensures|invariant|decreases|step|entry)(\[[A-Z0-9, ]+\])?\s+(.*)$`)

func parseContractFile(path string, extra ...string) (*ContractFile, error) {
	cf := &ContractFile{ByName: map[string]*Contract{}, Path: path, Scan: map[string]int{}, Lists: map[string][]string{}, Groups: map[string]*Contract{}}
	var lines []string
	var lineNos []int
	for _, p := range append([]string{path}, extra...) {
		b, err := os.ReadFile(p)
		if err != nil {
			if p == path {
				return nil, err
			}
			continue
		}
		for i, l := range strings.Split(string(b), "\n") {
			t := strings.TrimSpace(l)
			if !strings.HasPrefix(t, "//@") {
				continue
			}
			c := strings.TrimPrefix(t, "//@")
			// strip trailing comment
			if k := strings.Index(c, " // "); k >= 0 {
				c = c[:k]
			}
			c = strings.TrimSpace(c)
			if c == "" {
				continue
			}
			if strings.HasPrefix(c, "|") && len(lines) > 0 {
				lines[len(lines)-1] += " " + strings.TrimSpace(c[1:])
				continue
			}
			lines = append(lines, c)
			lineNos = append(lineNos, i+1)
		}
	}
	// textual macros: define NAME(a, b) body
	type macro struct {
		params []string
		body   string
		raw    bool // expanded without surrounding parentheses (argument lists)
	}
	macros := map[string]macro{}
	var kept []string
	var keptNos []int
	for i, l := range lines {
		if strings.HasPrefix(l, "define ") || strings.HasPrefix(l, "defineraw ") {
			raw := strings.HasPrefix(l, "defineraw ")
			rest := strings.TrimSpace(l[strings.Index(l, " ")+1:])
			op := strings.Index(rest, "(")
			cl := strings.Index(rest, ")")
			if op < 0 || cl < op {
				return nil, fmt.Errorf("line %d: define NAME(params) body", lineNos[i])
			}
			var ps []string
			for _, q := range strings.Split(rest[op+1:cl], ",") {
				if q = strings.TrimSpace(q); q != "" {
					ps = append(ps, q)
				}
			}
			macros[strings.TrimSpace(rest[:op])] = macro{ps, strings.TrimSpace(rest[cl+1:]), raw}
			continue
		}
		kept = append(kept, l)
		keptNos = append(keptNos, lineNos[i])
	}
	lines, lineNos = kept, keptNos
	expand := func(text string) string {
		for iter := 0; iter < 6; iter++ {
			changed := false
			for name, m := range macros {
				for {
					k := indexWord(text, name+"(")
					if k < 0 {
						break
					}
					// find matching paren
					d, j := 0, k+len(name)
					for ; j < len(text); j++ {
						if text[j] == '(' {
							d++
						} else if text[j] == ')' {
							d--
							if d == 0 {
								break
							}
						}
					}
					args := splitTopLevel(text[k+len(name)+1:j], ',')
					body := m.body
					for pi, pn := range m.params {
						if pi < len(args) {
							body = replaceWord(body, pn, "("+strings.TrimSpace(args[pi])+")")
						}
					}
					if m.raw {
						text = text[:k] + body + text[j+1:]
					} else {
						text = text[:k] + "(" + body + ")" + text[j+1:]
					}
					changed = true
				}
			}
			if !changed {
				break
			}
		}
		return text
	}
	for i := range lines {
		lines[i] = expand(lines[i])
	}
	var cur *Contract
	var defProps []string // default properties of the clauses of the block being read
	for i, l := range lines {
		ln := lineNos[i]
		fields := strings.Fields(l)
		switch fields[0] {
		case "ghost":
			if len(fields) < 3 {
				return nil, fmt.Errorf("line %d: ghost NAME SORT", ln)
			}
			cf.Ghosts = append(cf.Ghosts, &Ghost{Name: fields[1], Sort: strings.Join(fields[2:], " ")})
			continue
		case "list":
			// list NAME item item ...
			if len(fields) >= 2 {
				cf.Lists[fields[1]] = append(cf.Lists[fields[1]], fields[2:]...)
			}
			continue
		case "applyfile":
			if len(fields) < 3 {
				return nil, fmt.Errorf("line %d: applyfile GROUP FILE", ln)
			}
			cf.FileApplies = append(cf.FileApplies, [2]string{fields[1], fields[2]})
			cur = nil
			continue
		case "apply":
			if len(fields) < 3 {
				return nil, fmt.Errorf("line %d: apply GROUP GLOB", ln)
			}
			cf.Applies = append(cf.Applies, [2]string{fields[1], strings.Join(fields[2:], " ")})
			cur = nil
			continue
		case "group":
			cur = &Contract{Kind: "group", Name: fields[1], LoopInv: map[int][]*CExpr{}, LoopDec: map[int]*CExpr{},
				Nilable: map[string]bool{}, NonNil: map[string]bool{}, Flags: map[string]string{}, Line: ln}
			if k := strings.Index(l, "props:"); k >= 0 {
				cur.Props = strings.FieldsFunc(l[k+6:], func(r rune) bool { return r == ',' || r == ' ' })
			}
			defProps = cur.Props
			cf.Groups[fields[1]] = cur
			continue
		case "typeinv":
			// typeinv T props: Cxx / invariant EXPR(x) / flag footprint T.f U.g ...: an object invariant of
			// *T - assumed for every *T that existed before the activation, established by whoever
			// creates one, stable because the footprint fields are only ever written on fresh objects
			cur = &Contract{Kind: "typeinv", Name: fields[1], LoopInv: map[int][]*CExpr{}, LoopDec: map[int]*CExpr{},
				Nilable: map[string]bool{}, NonNil: map[string]bool{}, Flags: map[string]string{}, Line: ln}
			if k := strings.Index(l, "props:"); k >= 0 {
				cur.Props = strings.FieldsFunc(l[k+6:], func(r rune) bool { return r == ',' || r == ' ' })
			}
			defProps = cur.Props
			cf.ByName["typeinv "+fields[1]] = cur
			cf.Order = append(cf.Order, cur)
			continue
		case "pool":
			cur = &Contract{Kind: "pool", Name: fields[1], LoopInv: map[int][]*CExpr{}, LoopDec: map[int]*CExpr{},
				Nilable: map[string]bool{}, NonNil: map[string]bool{}, Flags: map[string]string{}, Line: ln, Props: []string{"C01"}}
			cf.ByName["pool "+fields[1]] = cur
			cf.Order = append(cf.Order, cur)
			continue
		case "func", "iface", "functype", "impl":
			rest := strings.TrimSpace(l[len(fields[0]):])
			props := []string{}
			if k := strings.Index(rest, "props:"); k >= 0 {
				for _, p := range strings.FieldsFunc(rest[k+6:], func(r rune) bool { return r == ',' || r == ' ' }) {
					props = append(props, p)
				}
				rest = strings.TrimSpace(rest[:k])
			}
			cur = &Contract{Kind: fields[0], Name: rest, Props: props, LoopInv: map[int][]*CExpr{}, LoopDec: map[int]*CExpr{},
				Nilable: map[string]bool{}, NonNil: map[string]bool{}, Flags: map[string]string{}, Line: ln}
			key := cur.Name
			if cur.Kind != "func" {
				key = cur.Kind + " " + cur.Name
			}
			defProps = props
			if prev, dup := cf.ByName[key]; dup {
				// a second block for the same function adds its clauses to the first (clauses without
				// an explicit [Cxx] belong to the properties named in the header of their own block)
				if prev.Kind != cur.Kind || prev.Assumed {
					return nil, fmt.Errorf("line %d: duplicate contract for %s", ln, key)
				}
				for _, p := range props {
					if !hasProp(prev.Props, p) {
						prev.Props = append(prev.Props, p)
					}
				}
				cur = prev
				continue
			}
			cf.ByName[key] = cur
			cf.Order = append(cf.Order, cur)
			continue
		}
		if cur == nil {
			return nil, fmt.Errorf("line %d: clause outside a contract block: %s", ln, l)
		}
		loopN := 0
		body := l
		if fields[0] == "loop" && len(fields) >= 3 {
			n, err := strconv.Atoi(fields[1])
			if fields[1] == "*" {
				n, err = -1, nil // every loop of the function
			}
			if err != nil {
				return nil, fmt.Errorf("line %d: loop ordinal: %v", ln, err)
			}
			loopN = n
			body = strings.TrimSpace(l[strings.Index(l, fields[1])+len(fields[1]):])
		}
		if m := clauseRe.FindStringSubmatch(body); m != nil {
			props := defProps
			if m[2] != "" {
				props = strings.FieldsFunc(strings.Trim(m[2], "[]"), func(r rune) bool { return r == ',' || r == ' ' })
			}
			isGlobal := false
			if m[1] == "requires" && strings.HasPrefix(m[3], "global ") {
				isGlobal = true
				m[3] = strings.TrimSpace(m[3][len("global "):])
			}
			e, err := parseCExpr(m[3])
			if err != nil {
				return nil, fmt.Errorf("line %d: %v in %q", ln, err, m[3])
			}
			ce := &CExpr{Text: m[3], Props: props, ast: e, Line: ln, Global: isGlobal, Tagged: m[2] != ""}
			switch m[1] {
			case "requires":
				cur.Requires = append(cur.Requires, ce)
			case "ensures":
				cur.Ensures = append(cur.Ensures, ce)
			case "invariant":
				if loopN == 0 && (cur.Kind == "pool" || cur.Kind == "typeinv") {
					cur.Requires = append(cur.Requires, ce) // pool invariant over x
					continue
				}
				if loopN == 0 {
					return nil, fmt.Errorf("line %d: invariant without loop ordinal", ln)
				}
				cur.LoopInv[loopN] = append(cur.LoopInv[loopN], ce)
			case "decreases":
				if loopN == 0 {
					return nil, fmt.Errorf("line %d: decreases without loop ordinal", ln)
				}
				cur.LoopDec[loopN] = ce
			case "entry":
				if loopN <= 0 {
					return nil, fmt.Errorf("line %d: entry needs the ordinal of one loop", ln)
				}
				if cur.LoopEntry == nil {
					cur.LoopEntry = map[int][]*CExpr{}
				}
				cur.LoopEntry[loopN] = append(cur.LoopEntry[loopN], ce)
			case "step":
				if loopN <= 0 {
					return nil, fmt.Errorf("line %d: step needs the ordinal of one loop", ln)
				}
				if cur.LoopStep == nil {
					cur.LoopStep = map[int][]*CExpr{}
				}
				cur.LoopStep[loopN] = append(cur.LoopStep[loopN], ce)
			}
			continue
		}
		if loopN > 0 && strings.HasPrefix(body, "snapshot ") {
			f := strings.Fields(body)
			if len(f) < 3 {
				return nil, fmt.Errorf("line %d: loop N snapshot NAME EXPR", ln)
			}
			rest := strings.TrimSpace(body[strings.Index(body, f[1])+len(f[1]):])
			e, err := parseCExpr(rest)
			if err != nil {
				return nil, fmt.Errorf("line %d: %v in %q", ln, err, rest)
			}
			if cur.LoopSnap == nil {
				cur.LoopSnap = map[int][]*Snap{}
			}
			cur.LoopSnap[loopN] = append(cur.LoopSnap[loopN], &Snap{Name: f[1], Expr: &CExpr{Text: rest, Props: defProps, ast: e, Line: ln}})
			continue
		}
		atProps := defProps
		if strings.HasPrefix(fields[0], "atcall[") && strings.HasSuffix(fields[0], "]") {
			// atcall[Cxx,Cyy] CALLEE EXPR: the assertion belongs to these properties only
			atProps = strings.FieldsFunc(fields[0][len("atcall["):len(fields[0])-1], func(r rune) bool { return r == ',' || r == ' ' })
			fields[0] = "atcall"
		}
		finding := false
		if fields[0] == "finding" && len(fields) >= 2 && strings.HasPrefix(fields[1], "atcall") {
			// finding atcall[...] CALLEE EXPR
			finding = true
			l = strings.TrimSpace(l[len("finding"):])
			fields = fields[1:]
			if strings.HasPrefix(fields[0], "atcall[") && strings.HasSuffix(fields[0], "]") {
				atProps = strings.FieldsFunc(fields[0][len("atcall["):len(fields[0])-1], func(r rune) bool { return r == ',' || r == ' ' })
				fields[0] = "atcall"
			}
		}
		switch fields[0] {
		case "atcall":
			if len(fields) < 3 {
				return nil, fmt.Errorf("line %d: atcall CALLEE EXPR", ln)
			}
			rest := strings.TrimSpace(l[strings.Index(l, fields[1])+len(fields[1]):])
			e, err := parseCExpr(rest)
			if err != nil {
				return nil, fmt.Errorf("line %d: atcall: %v", ln, err)
			}
			cur.AtCall = append(cur.AtCall, &AtCall{Callee: fields[1], Expr: &CExpr{Text: rest, ast: e, Line: ln, Props: atProps}, NoAssume: finding})
		case "ghostassign":
			// ghostassign NAME EXPR: ghost code - as it returns, the function assigns EXPR (over the
			// final state and the results) to the ghost NAME. Callers see it like a ghostset.
			if len(fields) < 3 {
				return nil, fmt.Errorf("line %d: ghostassign NAME EXPR", ln)
			}
			rest := strings.TrimSpace(l[strings.Index(l, fields[1])+len(fields[1]):])
			e, err := parseCExpr(rest)
			if err != nil {
				return nil, fmt.Errorf("line %d: ghostassign: %v", ln, err)
			}
			if cur.GhostSet == nil {
				cur.GhostSet = map[string]*CExpr{}
			}
			if cur.GhostAssign == nil {
				cur.GhostAssign = map[string]bool{}
			}
			cur.GhostSet[fields[1]] = &CExpr{Text: rest, ast: e, Line: ln, Props: defProps}
			cur.GhostAssign[fields[1]] = true
		case "ghostset":
			// ghostset NAME EXPR: after a call the ghost NAME has value EXPR (old(NAME) = before the call)
			if len(fields) < 3 {
				return nil, fmt.Errorf("line %d: ghostset NAME EXPR", ln)
			}
			rest := strings.TrimSpace(l[strings.Index(l, fields[1])+len(fields[1]):])
			e, err := parseCExpr(rest)
			if err != nil {
				return nil, fmt.Errorf("line %d: ghostset: %v", ln, err)
			}
			if cur.GhostSet == nil {
				cur.GhostSet = map[string]*CExpr{}
			}
			cur.GhostSet[fields[1]] = &CExpr{Text: rest, ast: e, Line: ln, Props: defProps}
		case "arith":
			cur.ArithChecked = true
		case "strings":
			cur.StringContent = true
		case "assumed":
			cur.Assumed = true
			cf.Scan["assumed"]++
		case "trusted":
			cur.Assumed = true
			cf.Scan["trusted"]++
		case "pure":
			cur.Pure = true
			cur.HasModifies = true
		case "fresh":
			cur.Fresh = true
		case "function":
			cur.Function = true
			cur.Pure = true
			cur.HasModifies = true
		case "nilable":
			for _, f := range fields[1:] {
				cur.Nilable[f] = true
			}
		case "nonnil":
			for _, f := range fields[1:] {
				cur.NonNil[f] = true
			}
		case "params":
			cur.ParamNames = fields[1:]
		case "use":
			for _, g := range fields[1:] {
				grp := cf.Groups[g]
				if grp == nil {
					return nil, fmt.Errorf("line %d: unknown group %q", ln, g)
				}
				mergeContract(cur, grp)
			}
		case "modifies":
			cur.HasModifies = true
			rest := strings.TrimSpace(l[len("modifies"):])
			if rest != "nothing" {
				for _, part := range strings.Split(rest, ",") {
					part = strings.TrimSpace(part)
					if part == "" {
						continue
					}
					e, err := parseCExpr(part)
					if err != nil {
						return nil, fmt.Errorf("line %d: modifies %q: %v", ln, part, err)
					}
					cur.Modifies = append(cur.Modifies, &CExpr{Text: part, ast: e, Line: ln})
				}
			}
		case "flag":
			if len(fields) >= 2 {
				cur.Flags[fields[1]] = strings.Join(fields[2:], " ")
			}
			if fields[1] == "tolerates" {
				cf.Scan["tolerates"]++
			}
		default:
			return nil, fmt.Errorf("line %d: unknown clause %q", ln, l)
		}
	}
	return cf, nil
}

// parseCExpr parses the Go-like expression language with ==> and forall/exists.
func parseCExpr(s string) (ast.Expr, error) {
	r := rewriteImp(strings.TrimSpace(s))
	return parser.ParseExpr(r)
}

// rewriteImp rewrites `A ==> B` (lowest precedence, right assoc, at any nesting) to imp(A, B) and
// `forall x T :: body` / `exists x T :: body` to forall(x, T, body).
func rewriteImp(s string) string {
	s = strings.TrimSpace(s)
	// quantifier prefix
	for _, q := range []string{"forall", "exists"} {
		if strings.HasPrefix(s, q+" ") {
			if k := topLevelIndex(s, "::"); k > 0 {
				decl := strings.Fields(strings.TrimSpace(s[len(q):k]))
				if len(decl) == 2 {
					return fmt.Sprintf("%s(%s, %q, %s)", q, decl[0], decl[1], rewriteImp(s[k+2:]))
				}
			}
		}
	}
	if k := topLevelIndex(s, "==>"); k >= 0 {
		return "imp(" + rewriteImp(s[:k]) + ", " + rewriteImp(s[k+3:]) + ")"
	}
	// recurse into parenthesised groups
	var b strings.Builder
	for i := 0; i < len(s); {
		if s[i] == '"' {
			j := i + 1
			for j < len(s) && s[j] != '"' {
				if s[j] == '\\' {
					j++
				}
				j++
			}
			b.WriteString(s[i:min(j+1, len(s))])
			i = j + 1
			continue
		}
		if s[i] == '(' || s[i] == '[' {
			open, close := s[i], byte(')')
			if open == '[' {
				close = ']'
			}
			d, j := 0, i
			for ; j < len(s); j++ {
				if s[j] == open {
					d++
				} else if s[j] == close {
					d--
					if d == 0 {
						break
					}
				}
			}
			inner := s[i+1 : j]
			parts := splitTopLevel(inner, ',')
			for k := range parts {
				parts[k] = rewriteImp(parts[k])
			}
			b.WriteByte(open)
			b.WriteString(strings.Join(parts, ", "))
			b.WriteByte(close)
			i = j + 1
			continue
		}
		b.WriteByte(s[i])
		i++
	}
	return b.String()
}

func topLevelIndex(s, op string) int {
	d := 0
	inStr := false
	for i := 0; i < len(s); i++ {
		c := s[i]
		if c == '"' {
			inStr = !inStr
		}
		if inStr {
			continue
		}
		if c == '(' || c == '[' {
			d++
		} else if c == ')' || c == ']' {
			d--
		} else if d == 0 && strings.HasPrefix(s[i:], op) {
			return i
		}
	}
	return -1
}

func splitTopLevel(s string, sep byte) []string {
	var out []string
	d, start := 0, 0
	inStr := false
	for i := 0; i < len(s); i++ {
		c := s[i]
		if c == '"' {
			inStr = !inStr
		}
		if inStr {
			continue
		}
		if c == '(' || c == '[' {
			d++
		} else if c == ')' || c == ']' {
			d--
		} else if c == sep && d == 0 {
			out = append(out, s[start:i])
			start = i + 1
		}
	}
	out = append(out, s[start:])
	return out
}

// ---------------------------------------------------------------- evaluation

type cval struct {
	S    string
	T    types.Type // may be nil for spec-sorted values
	Sort string
	P    *Place
}

type evalEnv struct {
	fx      *FnExec
	heap    heapState
	oldHeap heapState
	rets    []Val
	bound   map[string]cval
	inQuant bool           // inside a quantifier of the contract expression (terms may mention its variable)
	names   map[string]Val // extra names (call-site formals)
	gh      map[string]string
	oldGh   map[string]string
	retType []types.Type
	loop    *ssa.BasicBlock // loop head whose invariant is being evaluated (for loop variables)
	at      *ssa.BasicBlock // block of the program point the clause is evaluated at (atcall)
	adopt   bool            // evaluating a pool invariant at Get: ownedFresh adopts the reference
}

func (fx *FnExec) evalContract(e *CExpr, env *evalEnv) (string, error) {
	if env.gh == nil {
		env.gh = fx.cur.gh
	}
	if env.oldGh == nil {
		env.oldGh = fx.entryGh
	}
	v, err := fx.evalC(e.ast, env)
	if err != nil {
		return "", err
	}
	if v.Sort != "Bool" {
		return "", fmt.Errorf("contract expression %q is not boolean (sort %s)", e.Text, v.Sort)
	}
	return v.S, nil
}

// evalMeasure evaluates a decreases clause: an integer expression.
func (fx *FnExec) evalMeasure(e *CExpr, env *evalEnv) (string, error) {
	if env.gh == nil {
		env.gh = fx.cur.gh
	}
	if env.oldGh == nil {
		env.oldGh = fx.entryGh
	}
	v, err := fx.evalC(e.ast, env)
	if err != nil {
		return "", err
	}
	if v.Sort != "Int" {
		return "", fmt.Errorf("measure %q is not an integer (sort %s)", e.Text, v.Sort)
	}
	return v.S, nil
}

// withHeap runs f with the executor's current heap replaced.
func (fx *FnExec) withHeap(h heapState, f func()) {
	save := fx.cur
	tmp := &blockState{pc: save.pc, heap: h, gh: save.gh}
	fx.cur = tmp
	f()
	fx.cur = save
}

func (fx *FnExec) cvalOf(v Val) cval {
	if v.S == "" && v.P != nil {
		return cval{T: v.T, P: v.P, Sort: "Int"}
	}
	return cval{S: v.S, T: v.T, Sort: fx.sortOf(v.T), P: v.P}
}

func (fx *FnExec) evalC(e ast.Expr, env *evalEnv) (cval, error) {
	switch x := e.(type) {
	case *ast.ParenExpr:
		return fx.evalC(x.X, env)
	case *ast.BasicLit:
		switch x.Kind {
		case token.INT:
			return cval{S: smtBigStr(x.Value), Sort: "Int", T: types.Typ[types.Int]}, nil
		case token.STRING:
			s, err := strconv.Unquote(x.Value)
			if err != nil {
				return cval{}, err
			}
			return cval{S: fx.strConstTerm(s), Sort: "Str", T: types.Typ[types.String]}, nil
		case token.CHAR:
			s, err := strconv.Unquote(x.Value)
			if err != nil {
				return cval{}, err
			}
			return cval{S: fmt.Sprint([]rune(s)[0]), Sort: "Int", T: types.Typ[types.Int]}, nil
		case token.FLOAT:
			// the same symbol the code's constant of that value gets (floats are uninterpreted)
			cv := constant.MakeFromLiteral(x.Value, token.FLOAT, 0)
			return cval{S: fx.W.floatConst(fx, cv.ExactString()), Sort: "F", T: types.Typ[types.Float64]}, nil
		}
		return cval{}, fmt.Errorf("unsupported literal %s", x.Value)
	case *ast.Ident:
		return fx.evalIdent(x.Name, env)
	case *ast.UnaryExpr:
		v, err := fx.evalC(x.X, env)
		if err != nil {
			return cval{}, err
		}
		switch x.Op {
		case token.NOT:
			return cval{S: not(v.S), Sort: "Bool"}, nil
		case token.SUB:
			return cval{S: "(- " + v.S + ")", Sort: "Int", T: v.T}, nil
		}
		return cval{}, fmt.Errorf("unsupported unary %s", x.Op)
	case *ast.BinaryExpr:
		return fx.evalBinary(x, env)
	case *ast.SelectorExpr:
		// package constant? (pkg.Name) not supported; field access
		base, err := fx.evalC(x.X, env)
		if err != nil {
			return cval{}, err
		}
		return fx.evalField(base, x.Sel.Name, env)
	case *ast.IndexExpr:
		base, err := fx.evalC(x.X, env)
		if err != nil {
			return cval{}, err
		}
		idx, err := fx.evalC(x.Index, env)
		if err != nil {
			return cval{}, err
		}
		return fx.evalIndex(base, idx, env)
	case *ast.CallExpr:
		return fx.evalCallC(x, env)
	}
	return cval{}, fmt.Errorf("unsupported expression %T", e)
}

func (fx *FnExec) evalIdent(name string, env *evalEnv) (cval, error) {
	if v, ok := env.bound[name]; ok {
		return v, nil
	}
	if v, ok := fx.snaps[name]; ok {
		return v, nil
	}
	switch name {
	case "true", "false":
		return cval{S: name, Sort: "Bool", T: types.Typ[types.Bool]}, nil
	case "nil":
		return cval{S: "nil", Sort: "nil"}, nil
	}
	if env.names != nil {
		if v, ok := env.names[name]; ok {
			return fx.cvalOf(v), nil
		}
	}
	if env.rets != nil {
		if name == "ret" && len(env.rets) >= 1 {
			return fx.cvalOf(env.rets[0]), nil
		}
		if strings.HasPrefix(name, "ret") {
			if n, err := strconv.Atoi(name[3:]); err == nil && n < len(env.rets) {
				return fx.cvalOf(env.rets[n]), nil
			}
		}
		if name == "err" {
			last := env.rets[len(env.rets)-1]
			return fx.cvalOf(last), nil
		}
		// named results
		if env.names == nil {
			if res := fx.Fn.Signature.Results(); res != nil {
				for i := 0; i < res.Len() && i < len(env.rets); i++ {
					if res.At(i).Name() == name {
						return fx.cvalOf(env.rets[i]), nil
					}
				}
			}
		}
	}
	if env.names == nil {
		if v, ok := fx.params[name]; ok {
			return fx.cvalOf(v), nil
		}
		// a variable captured by a closure: the name means the variable's current value
		for _, fv := range fx.Fn.FreeVars {
			if fv.Name() != name {
				continue
			}
			if pt, ok := fv.Type().Underlying().(*types.Pointer); ok {
				var t string
				fx.withHeap(env.heap, func() {
					t = fx.load(&Place{Kind: PCell, Ref: fx.term(fx.val(fv)), Elem: pt.Elem()})
				})
				return cval{S: t, T: pt.Elem(), Sort: fx.sortOf(pt.Elem())}, nil
			}
			return fx.cvalOf(fx.val(fv)), nil
		}
	}
	if gs := fx.W.Contracts.ghost(name); gs != nil {
		if g, ok := fx.ghostVal(env.gh, name); ok {
			return cval{S: g, Sort: gs.Sort}, nil
		}
	}
	// package-level constant or variable
	if obj := fx.W.Pkg.Pkg.Scope().Lookup(name); obj != nil {
		switch o := obj.(type) {
		case *types.Const:
			switch o.Val().Kind() {
			case constant.Int:
				return cval{S: smtBigStr(o.Val().ExactString()), Sort: "Int", T: o.Type()}, nil
			case constant.String:
				return cval{S: fx.strConstTerm(constant.StringVal(o.Val())), Sort: "Str", T: o.Type()}, nil
			case constant.Bool:
				return cval{S: fmt.Sprint(constant.BoolVal(o.Val())), Sort: "Bool", T: o.Type()}, nil
			}
		case *types.Var:
			if g, ok := fx.W.Pkg.Members[name].(*ssa.Global); ok {
				gp := fx.globalPtr(g)
				// the value of the global
				var t string
				fx.withHeap(env.heap, func() { t = fx.load(fx.placeOf(gp)) })
				el := g.Type().(*types.Pointer).Elem()
				if _, isStruct := el.Underlying().(*types.Struct); isStruct {
					// struct global: refer to it by ref for field selection
					return cval{S: gp.S, T: g.Type(), Sort: "Int"}, nil
				}
				return cval{S: t, T: el, Sort: fx.sortOf(el)}, nil
			}
		}
	}
	// local variable of the function: a phi named after the source variable
	// at a call site the name means the variable's value there: the latest definition or merge
	// that dominates the call
	// the hidden index of a range loop, in a loop that is no range loop any more: a maintainer rewrote
	// `for _, x := range s` as `for i := 0; i < len(s); i++`. At the head of the range loop the hidden
	// index is the number of finished rounds minus one, at the head of the counted loop the counter
	// is the number of finished rounds: rangeindex means i - 1 (at the back edge as at the head)
	if name == "rangeindex" && env.loop != nil && !loopHasRangeIndex(env.loop) {
		if ctr := countedLoopCounter(env.loop); ctr != nil {
			c := fx.cvalOf(fx.val(ctr))
			return cval{S: "(- " + c.S + " 1)", Sort: "Int", T: c.T}, nil
		}
	}
	if env.at != nil {
		if v := fx.localAt(name, env.at); v != nil {
			return fx.cvalOf(fx.val(v)), nil
		}
	}
	if v := fx.localByName(name, env.loop); v != nil {
		return fx.cvalOf(fx.val(v)), nil
	}
	// in a loop clause a name that several variables share means the one visible at the loop head
	if env.loop != nil {
		if v := fx.localAt(name, env.loop); v != nil {
			return fx.cvalOf(fx.val(v)), nil
		}
	}
	// a local that lives in a cell (its address is taken or a closure captures it): the name means
	// the cell's current content; of several cells with the name, the one allocated on the way here
	var cell *ssa.Alloc
	for _, b := range fx.Fn.Blocks {
		for _, in := range b.Instrs {
			al, ok := in.(*ssa.Alloc)
			if !ok || !fx.sameName(al.Comment, name) {
				continue
			}
			at := env.at
			if at == nil {
				at = env.loop
			}
			if at != nil && !(b == at || b.Dominates(at)) {
				continue
			}
			if _, done := fx.regs[al]; !done {
				continue
			}
			cell = al
		}
	}
	if cell != nil {
		el := cell.Type().Underlying().(*types.Pointer).Elem()
		var t string
		fx.withHeap(env.heap, func() { t = fx.load(fx.placeOf(fx.val(cell))) })
		return cval{S: t, T: el, Sort: fx.sortOf(el)}, nil
	}
	return cval{}, fmt.Errorf("unknown name %q", name)
}

// localAt: among several phis named `name`, the one that holds the variable's value at the given
// block: its block dominates that block and is dominated by the blocks of all other candidates that
// do (the last merge point of the variable before the program point).
func (fx *FnExec) localAt(name string, at *ssa.BasicBlock) ssa.Value {
	if at == nil {
		return nil
	}
	// candidates: every SSA value the debug information binds to the name (definitions and
	// merges), defined in a block that dominates the program point
	type cand struct {
		v   ssa.Value
		blk *ssa.BasicBlock
		idx int
	}
	var cands []cand
	seen := map[ssa.Value]bool{}
	add := func(v ssa.Value) {
		if v == nil || seen[v] {
			return
		}
		seen[v] = true
		in, ok := v.(ssa.Instruction)
		if !ok {
			return // parameters are resolved before locals
		}
		b := in.Block()
		if b == nil || !(b == at || b.Dominates(at)) {
			return
		}
		idx := 0
		for i, x := range b.Instrs {
			if x == in {
				idx = i
			}
		}
		cands = append(cands, cand{v, b, idx})
	}
	for _, b := range fx.Fn.Blocks {
		for _, in := range b.Instrs {
			switch x := in.(type) {
			case *ssa.Phi:
				if fx.sameName(x.Comment, name) {
					add(x)
				}
			case *ssa.DebugRef:
				if x.IsAddr {
					continue
				}
				if id, ok := x.Expr.(*ast.Ident); ok && fx.sameName(id.Name, name) {
					if _, isConst := x.X.(*ssa.Const); !isConst {
						add(x.X)
					}
				}
			}
		}
	}
	if len(cands) == 0 {
		return nil
	}
	best := cands[0]
	for _, c := range cands[1:] {
		switch {
		case c.blk == best.blk:
			if c.idx > best.idx {
				best = c
			}
		case best.blk.Dominates(c.blk):
			best = c
		}
	}
	// a definition in the program point's own block that comes after the point cannot be told from
	// one before it here; clauses are evaluated at calls, and values defined later in the same block
	// are not yet in the register file, which makes the evaluation fail rather than go stale
	if _, ok := fx.regs[best.v]; !ok {
		return nil
	}
	return best.v
}

// localByName finds the SSA phi that carries the source variable `name`, preferring the one at the
// given loop head.
func loopHasRangeIndex(head *ssa.BasicBlock) bool {
	for _, in := range head.Instrs {
		if phi, ok := in.(*ssa.Phi); ok && phi.Comment == "rangeindex" {
			return true
		}
	}
	return false
}

// countedLoopCounter: the phi i of a loop `for i := 0; i < n; i++` (the head ends in `if i < ...`, i
// starts at the constant 0 and every other edge brings i + 1).
func countedLoopCounter(head *ssa.BasicBlock) *ssa.Phi {
	if len(head.Instrs) == 0 {
		return nil
	}
	iff, ok := head.Instrs[len(head.Instrs)-1].(*ssa.If)
	if !ok {
		return nil
	}
	bo, ok := iff.Cond.(*ssa.BinOp)
	if !ok || bo.Op != token.LSS {
		return nil
	}
	phi, ok := bo.X.(*ssa.Phi)
	if !ok || phi.Block() != head {
		return nil
	}
	zero, inc := false, true
	for _, e := range phi.Edges {
		if c, ok := e.(*ssa.Const); ok {
			if c.Value != nil && c.Int64() == 0 {
				zero = true
				continue
			}
			return nil
		}
		b, ok := e.(*ssa.BinOp)
		if !ok || b.Op != token.ADD || b.X != ssa.Value(phi) {
			inc = false
			continue
		}
		if c, ok := b.Y.(*ssa.Const); !ok || c.Value == nil || c.Int64() != 1 {
			inc = false
		}
	}
	if zero && inc {
		return phi
	}
	return nil
}

func (fx *FnExec) localByName(name string, loop *ssa.BasicBlock) ssa.Value {
	var found []ssa.Value
	if loop != nil {
		for _, in := range loop.Instrs {
			if phi, ok := in.(*ssa.Phi); ok && fx.sameName(phi.Comment, name) {
				return phi
			}
		}
	}
	for _, b := range fx.Fn.Blocks {
		for _, in := range b.Instrs {
			if phi, ok := in.(*ssa.Phi); ok && fx.sameName(phi.Comment, name) {
				found = append(found, phi)
			}
		}
	}
	if len(found) == 1 {
		return found[0]
	}
	if len(found) > 1 {
		return nil
	}
	// an addressable local (its address is taken or it is a struct whose fields are read in place):
	// the name denotes the variable's cell, whatever values were stored into it
	var cell ssa.Value
	cells := 0
	for _, b := range fx.Fn.Blocks {
		for _, in := range b.Instrs {
			if d, ok := in.(*ssa.DebugRef); ok && d.IsAddr {
				if al, isAlloc := d.X.(*ssa.Alloc); isAlloc {
					if id, ok := d.Expr.(*ast.Ident); ok && fx.sameName(id.Name, name) && cell != ssa.Value(al) {
						cell = al
						cells++
					}
				}
			}
		}
	}
	if cells == 1 {
		return cell
	}
	// a local that is assigned once: every debug reference names the same SSA value
	var single ssa.Value
	for _, b := range fx.Fn.Blocks {
		for _, in := range b.Instrs {
			d, ok := in.(*ssa.DebugRef)
			if !ok {
				continue
			}
			if d.IsAddr {
				// an addressable local (var b T; b.M()): the name denotes the variable's address
				if _, isAlloc := d.X.(*ssa.Alloc); !isAlloc {
					continue
				}
			}
			id, ok := d.Expr.(*ast.Ident)
			if !ok || !fx.sameName(id.Name, name) {
				continue
			}
			if _, isConst := d.X.(*ssa.Const); isConst {
				continue // zero value at the declaration
			}
			if single == nil {
				single = d.X
			} else if single != d.X {
				return nil
			}
		}
	}
	return single
}

func (fx *FnExec) nilOf(sort string) string {
	switch sort {
	case "Iface":
		return "nil-iface"
	case "Slice":
		return "nil-slice"
	}
	return "0"
}

// strExt: in functions that reason about string contents, two strings compared in a contract are
// equal exactly when they have the same bytes (the instance of extensionality for these two).
func (fx *FnExec) strExt(a, b cval, env *evalEnv) {
	if a.Sort != "Str" || b.Sort != "Str" || fx.C == nil || !fx.C.StringContent || env.inQuant || a.S == b.S {
		return
	}
	key := "strext " + a.S + " " + b.S
	if fx.declared[key] {
		return
	}
	fx.declared[key] = true
	fx.assumeGlobal("(= " + eq(a.S, b.S) + " (and (= (slen " + a.S + ") (slen " + b.S + ")) (forall ((qk Int)) (=> (and (<= 0 qk) (< qk (slen " + a.S + "))) (= (sat " + a.S + " qk) (sat " + b.S + " qk))))))")
}

func (fx *FnExec) evalBinary(x *ast.BinaryExpr, env *evalEnv) (cval, error) {
	a, err := fx.evalC(x.X, env)
	if err != nil {
		return cval{}, err
	}
	b, err := fx.evalC(x.Y, env)
	if err != nil {
		return cval{}, err
	}
	if a.Sort == "nil" && b.Sort != "nil" {
		a = cval{S: fx.nilOf(b.Sort), Sort: b.Sort}
	}
	if b.Sort == "nil" && a.Sort != "nil" {
		b = cval{S: fx.nilOf(a.Sort), Sort: a.Sort}
	}
	if a.S == "" && a.P != nil {
		a.S = fx.materialise(Val{P: a.P, T: a.T})
	}
	if b.S == "" && b.P != nil {
		b.S = fx.materialise(Val{P: b.P, T: b.T})
	}
	boolr := func(s string) (cval, error) { return cval{S: s, Sort: "Bool", T: types.Typ[types.Bool]}, nil }
	switch x.Op {
	case token.LAND:
		return boolr(and(a.S, b.S))
	case token.LOR:
		return boolr(or(a.S, b.S))
	case token.EQL:
		if a.Sort == "Slice" && b.S == "nil-slice" {
			return boolr("(= (s.arr " + a.S + ") 0)")
		}
		fx.strExt(a, b, env)
		return boolr(eq(a.S, b.S))
	case token.NEQ:
		if a.Sort == "Slice" && b.S == "nil-slice" {
			return boolr("(distinct (s.arr " + a.S + ") 0)")
		}
		fx.strExt(a, b, env)
		return boolr(not(eq(a.S, b.S)))
	case token.LSS:
		if a.Sort == "Str" && b.Sort == "Str" {
			return boolr("(str_lt " + a.S + " " + b.S + ")") // the order the code's < on strings is given
		}
		return boolr("(< " + a.S + " " + b.S + ")")
	case token.LEQ:
		if a.Sort == "Str" && b.Sort == "Str" {
			return boolr("(not (str_lt " + b.S + " " + a.S + "))")
		}
		return boolr("(<= " + a.S + " " + b.S + ")")
	case token.GTR:
		if a.Sort == "Str" && b.Sort == "Str" {
			return boolr("(str_lt " + b.S + " " + a.S + ")")
		}
		return boolr("(> " + a.S + " " + b.S + ")")
	case token.GEQ:
		if a.Sort == "Str" && b.Sort == "Str" {
			return boolr("(not (str_lt " + a.S + " " + b.S + "))")
		}
		return boolr("(>= " + a.S + " " + b.S + ")")
	case token.ADD:
		return cval{S: "(+ " + a.S + " " + b.S + ")", Sort: "Int", T: a.T}, nil
	case token.SUB:
		return cval{S: "(- " + a.S + " " + b.S + ")", Sort: "Int", T: a.T}, nil
	case token.MUL:
		return cval{S: "(* " + a.S + " " + b.S + ")", Sort: "Int", T: a.T}, nil
	case token.QUO:
		return cval{S: "(tdiv " + a.S + " " + b.S + ")", Sort: "Int", T: a.T}, nil
	case token.REM:
		return cval{S: "(tmod " + a.S + " " + b.S + ")", Sort: "Int", T: a.T}, nil
	}
	return cval{}, fmt.Errorf("unsupported operator %s", x.Op)
}

func derefType(t types.Type) (types.Type, bool) {
	if t == nil {
		return nil, false
	}
	if p, ok := t.Underlying().(*types.Pointer); ok {
		return p.Elem(), true
	}
	return t, false
}

func (fx *FnExec) evalField(base cval, name string, env *evalEnv) (cval, error) {
	if base.T == nil {
		return cval{}, fmt.Errorf("field %s of untyped value", name)
	}
	el, isPtr := derefType(base.T)
	st, ok := el.Underlying().(*types.Struct)
	if !ok {
		return cval{}, fmt.Errorf("field %s of non-struct %s", name, base.T)
	}
	idx := -1
	for i := 0; i < st.NumFields(); i++ {
		if st.Field(i).Name() == name {
			idx = i
		}
	}
	if idx < 0 {
		return cval{}, fmt.Errorf("no field %s in %s", name, el)
	}
	ft := st.Field(idx).Type()
	if isPtr {
		var pl *Place
		if base.P != nil && base.P.Kind != PCell {
			pl = &Place{Kind: PField, Base: base.P, Struct: st, Field: idx, Elem: ft, SName: fx.W.structName(el)}
		} else {
			ref := base.S
			if ref == "" && base.P != nil {
				ref = base.P.Ref
			}
			pl = &Place{Kind: PField, Ref: ref, Struct: st, Field: idx, Elem: ft, SName: fx.W.structName(el)}
		}
		var t string
		fx.withHeap(env.heap, func() { t = fx.load(pl) })
		// a reference read from untouched initial memory existed before this activation
		if env.bound == nil && initialHeapTerm(t) {
			if inv := fx.refInv(ft, t); inv != "true" {
				if base := selectIndexOf(t); base != "" {
					fx.assume(implies("(< "+base+" "+fx.allocBase()+")", inv))
				}
			}
		}
		// an object whose reference never left this activation cannot be found in memory
		if len(fx.private) > 0 && env.bound == nil {
			switch ft.Underlying().(type) {
			case *types.Pointer, *types.Map:
				for _, po := range fx.private {
					fx.assume("(distinct " + t + " " + po.ref + ")")
				}
			case *types.Slice:
				for _, po := range fx.private {
					fx.assume("(distinct (s.arr " + t + ") " + po.ref + ")")
				}
			}
		}
		return cval{S: t, T: ft, Sort: fx.sortOf(ft), P: nil}, nil
	}
	si := fx.W.structInfoOf(el)
	return cval{S: "(" + si.fields[idx] + " " + base.S + ")", T: ft, Sort: fx.sortOf(ft)}, nil
}

func (fx *FnExec) evalIndex(base, idx cval, env *evalEnv) (cval, error) {
	if base.T == nil {
		// spec-level array
		return cval{S: "(select " + base.S + " " + idx.S + ")", Sort: "Int"}, nil
	}
	switch t := base.T.Underlying().(type) {
	case *types.Slice:
		var r string
		fx.withHeap(env.heap, func() {
			r = fx.load(&Place{Kind: PElem, Arr: "(s.arr " + base.S + ")", Idx: "(+ (s.off " + base.S + ") " + idx.S + ")", Elem: t.Elem()})
		})
		return cval{S: r, T: t.Elem(), Sort: fx.sortOf(t.Elem())}, nil
	case *types.Basic:
		return cval{S: "(sat " + base.S + " " + idx.S + ")", T: types.Typ[types.Byte], Sort: "Int"}, nil
	case *types.Map:
		var r string
		fx.withHeap(env.heap, func() {
			_, val, _ := fx.mapHeaps(t)
			r = "(select (select " + val + " " + base.S + ") " + idx.S + ")"
		})
		return cval{S: r, T: t.Elem(), Sort: fx.sortOf(t.Elem())}, nil
	case *types.Array:
		return cval{S: "(select " + base.S + " " + idx.S + ")", T: t.Elem(), Sort: fx.sortOf(t.Elem())}, nil
	case *types.Pointer:
		// a local array variable (the name denotes its cell): element of the array object
		if at, ok := t.Elem().Underlying().(*types.Array); ok {
			arr := base.S
			if arr == "" && base.P != nil && base.P.Kind == PArr {
				arr = base.P.Arr
			}
			if arr == "" {
				return cval{}, fmt.Errorf("cannot index this array variable")
			}
			var r string
			fx.withHeap(env.heap, func() {
				r = fx.load(&Place{Kind: PElem, Arr: arr, Idx: idx.S, Elem: at.Elem()})
			})
			return cval{S: r, T: at.Elem(), Sort: fx.sortOf(at.Elem())}, nil
		}
	}
	return cval{}, fmt.Errorf("cannot index %s", base.T)
}

func (fx *FnExec) evalCallC(x *ast.CallExpr, env *evalEnv) (cval, error) {
	fn, ok := x.Fun.(*ast.Ident)
	if !ok {
		return cval{}, fmt.Errorf("unsupported call target")
	}
	boolr := func(s string) (cval, error) { return cval{S: s, Sort: "Bool", T: types.Typ[types.Bool]}, nil }
	switch fn.Name {
	case "imp":
		a, err := fx.evalC(x.Args[0], env)
		if err != nil {
			return cval{}, err
		}
		b, err := fx.evalC(x.Args[1], env)
		if err != nil {
			return cval{}, err
		}
		return boolr(implies(a.S, b.S))
	case "forall", "exists":
		v := x.Args[0].(*ast.Ident).Name
		sortLit, _ := strconv.Unquote(x.Args[1].(*ast.BasicLit).Value)
		sort, gt := specSortOf(sortLit)
		if gt == nil {
			if nt := fx.W.typeByName(sortLit); nt != nil {
				sort, gt = fx.sortOf(nt), nt
			}
		}
		sub := *env
		sub.bound = map[string]cval{}
		for k, b := range env.bound {
			sub.bound[k] = b
		}
		qn := "q_" + v
		sub.bound[v] = cval{S: qn, Sort: sort, T: gt}
		sub.inQuant = true
		body, err := fx.evalC(x.Args[2], &sub)
		if err != nil {
			return cval{}, err
		}
		return boolr("(" + fn.Name + " ((" + qn + " " + sort + ")) " + body.S + ")")
	case "literal": // literal(x): x is a string constant of the source
		v, err := fx.evalC(x.Args[0], env)
		if err != nil {
			return cval{}, err
		}
		if strings.HasPrefix(v.S, "str_") && !strings.Contains(v.S, " ") {
			return boolr("true")
		}
		return boolr("false")
	case "rangeover": // rangeover(): the slice a "for ... := range" loop walks (it often has no name)
		if env.loop == nil {
			return cval{}, fmt.Errorf("rangeover() outside a loop clause")
		}
		for _, in := range env.loop.Instrs {
			bo, ok := in.(*ssa.BinOp)
			if !ok || bo.Op != token.LSS {
				continue
			}
			call, ok := bo.Y.(*ssa.Call)
			if !ok {
				continue
			}
			if b, isB := call.Call.Value.(*ssa.Builtin); isB && b.Name() == "len" && len(call.Call.Args) == 1 {
				return fx.cvalOf(fx.val(call.Call.Args[0])), nil
			}
		}
		return cval{}, fmt.Errorf("rangeover(): the loop is not a range over a slice")
	case "cur": // cur(x): the current value of a parameter that the function reassigns (the phi named x)
		id, ok := x.Args[0].(*ast.Ident)
		if !ok {
			return cval{}, fmt.Errorf("cur takes a variable name")
		}
		if v := fx.localByName(id.Name, env.loop); v != nil {
			return fx.cvalOf(fx.val(v)), nil
		}
		return cval{}, fmt.Errorf("cur(%s): no reassigned local of that name", id.Name)
	case "nth": // nth(x, k): the k-th of several locals that share the name x, in source order of their definitions
		id, ok := x.Args[0].(*ast.Ident)
		lit, ok2 := x.Args[1].(*ast.BasicLit)
		if !ok || !ok2 {
			return cval{}, fmt.Errorf("nth takes a variable name and a number")
		}
		k, _ := strconv.Atoi(lit.Value)
		var vals []ssa.Value
		seen := map[ssa.Value]bool{}
		for _, b := range fx.Fn.Blocks {
			for _, in := range b.Instrs {
				d, isD := in.(*ssa.DebugRef)
				if !isD || d.IsAddr {
					continue
				}
				di, isI := d.Expr.(*ast.Ident)
				if !isI || !fx.sameName(di.Name, id.Name) {
					continue
				}
				if _, isConst := d.X.(*ssa.Const); isConst || seen[d.X] {
					continue
				}
				seen[d.X] = true
				vals = append(vals, d.X)
			}
		}
		sort.SliceStable(vals, func(i, j int) bool { return vals[i].Pos() < vals[j].Pos() })
		if k < 1 || k > len(vals) {
			return cval{}, fmt.Errorf("nth(%s, %d): the function defines %d local(s) of that name", id.Name, k, len(vals))
		}
		return fx.cvalOf(fx.val(vals[k-1])), nil
	case "old":
		sub := *env
		sub.heap = env.oldHeap
		sub.gh = env.oldGh
		return fx.evalC(x.Args[0], &sub)
	case "len":
		a, err := fx.evalC(x.Args[0], env)
		if err != nil {
			return cval{}, err
		}
		switch a.Sort {
		case "Slice":
			// a slice value read from memory is well formed (0 <= len <= cap): instance of the type
			// invariant for this term, unless it mentions a quantified variable
			if a.T != nil && strings.HasPrefix(a.S, "(select ") {
				free := true
				for name, bv := range env.bound {
					if strings.Contains(a.S, bv.S) || strings.Contains(a.S, name) {
						free = false
					}
				}
				if free {
					if inv := fx.typeInvariant(a.T, a.S); inv != "true" {
						fx.assumeGlobal(inv)
					}
				}
			}
			return cval{S: "(s.len " + a.S + ")", Sort: "Int", T: types.Typ[types.Int]}, nil
		case "Str":
			return cval{S: "(slen " + a.S + ")", Sort: "Int", T: types.Typ[types.Int]}, nil
		}
		if a.T == nil {
			return cval{}, fmt.Errorf("len of a value of unknown type")
		}
		if mt, ok := a.T.Underlying().(*types.Map); ok {
			var r string
			fx.withHeap(env.heap, func() { r = fx.mapLen(mt, a.S) })
			return cval{S: r, Sort: "Int", T: types.Typ[types.Int]}, nil
		}
		return cval{}, fmt.Errorf("len of %s", a.Sort)
	case "cap":
		a, err := fx.evalC(x.Args[0], env)
		if err != nil {
			return cval{}, err
		}
		return cval{S: "(s.cap " + a.S + ")", Sort: "Int", T: types.Typ[types.Int]}, nil
	case "has": // has(m, k): key in map
		m, err := fx.evalC(x.Args[0], env)
		if err != nil {
			return cval{}, err
		}
		k, err := fx.evalC(x.Args[1], env)
		if err != nil {
			return cval{}, err
		}
		mt, ok := m.T.Underlying().(*types.Map)
		if !ok {
			return cval{}, fmt.Errorf("has: not a map")
		}
		var r string
		fx.withHeap(env.heap, func() {
			dom, _, _ := fx.mapHeaps(mt)
			r = "(and (> " + m.S + " 0) (select (select " + dom + " " + m.S + ") " + k.S + "))"
		})
		return boolr(r)
	case "mapEmpty": // mapEmpty(m): m is a non-nil map without entries
		m, err := fx.evalC(x.Args[0], env)
		if err != nil {
			return cval{}, err
		}
		mt, ok := m.T.Underlying().(*types.Map)
		if !ok {
			return cval{}, fmt.Errorf("mapEmpty: not a map")
		}
		var r string
		fx.withHeap(env.heap, func() {
			dom, _, l := fx.mapHeaps(mt)
			r = "(and (> " + m.S + " 0) (= (select " + dom + " " + m.S + ") ((as const (Array " + fx.sortOf(mt.Key()) + " Bool)) false)) (= (select " + l + " " + m.S + ") 0))"
		})
		return boolr(r)
	case "implements": // implements(v, "TimestampAwareLoader"): the dynamic type of v has the interface's methods
		v, err := fx.evalC(x.Args[0], env)
		if err != nil {
			return cval{}, err
		}
		name, _ := strconv.Unquote(x.Args[1].(*ast.BasicLit).Value)
		t := fx.W.typeByName(name)
		if t == nil {
			return cval{}, fmt.Errorf("implements: unknown type %q", name)
		}
		fnm := "implements_" + sanitize(types.TypeString(t, func(p *types.Package) string { return p.Name() }))
		fx.declareFun(fnm, []string{"Int"}, "Bool")
		fx.noteIfacePred(fnm, t)
		return boolr("(and (distinct (i.tag " + v.S + ") 0) (" + fnm + " (i.tag " + v.S + ")))")
	case "typeIs": // typeIs(v, "int64")
		v, err := fx.evalC(x.Args[0], env)
		if err != nil {
			return cval{}, err
		}
		name, _ := strconv.Unquote(x.Args[1].(*ast.BasicLit).Value)
		t := fx.W.typeByName(name)
		if t == nil {
			return cval{}, fmt.Errorf("typeIs: unknown type %q", name)
		}
		return boolr(fmt.Sprintf("(= (i.tag %s) %d)", v.S, fx.tagOf(t)))
	case "unboxAs": // unboxAs(v, "int64")
		v, err := fx.evalC(x.Args[0], env)
		if err != nil {
			return cval{}, err
		}
		name, _ := strconv.Unquote(x.Args[1].(*ast.BasicLit).Value)
		t := fx.W.typeByName(name)
		if t == nil {
			return cval{}, fmt.Errorf("unboxAs: unknown type %q", name)
		}
		return cval{S: fx.unbox(t, "(i.pay "+v.S+")"), T: t, Sort: fx.sortOf(t)}, nil
	case "tag":
		v, err := fx.evalC(x.Args[0], env)
		if err != nil {
			return cval{}, err
		}
		return cval{S: "(i.tag " + v.S + ")", Sort: "Int"}, nil
	case "isFresh":
		v, err := fx.evalC(x.Args[0], env)
		if err != nil {
			return cval{}, err
		}
		var ds []string
		for _, f := range fx.fresh {
			ds = append(ds, eq(v.S, f))
		}
		return boolr(or(ds...))
	case "ite":
		c, err := fx.evalC(x.Args[0], env)
		if err != nil {
			return cval{}, err
		}
		a, err := fx.evalC(x.Args[1], env)
		if err != nil {
			return cval{}, err
		}
		b, err := fx.evalC(x.Args[2], env)
		if err != nil {
			return cval{}, err
		}
		if a.Sort == "nil" && b.Sort != "nil" {
			a = cval{S: fx.nilOf(b.Sort), Sort: b.Sort, T: b.T}
		}
		if b.Sort == "nil" && a.Sort != "nil" {
			b = cval{S: fx.nilOf(a.Sort), Sort: a.Sort, T: a.T}
		}
		return cval{S: ite(c.S, a.S, b.S), Sort: a.Sort, T: a.T}, nil
	}
	// spec function
	if sf, ok := fx.W.Contracts.Specs[fn.Name]; ok && fn.Name != "substr" { // substr: the builtin below adds its content axiom
		var args []string
		for i, a := range x.Args {
			v, err := fx.evalC(a, env)
			if err != nil {
				return cval{}, err
			}
			if v.Sort == "nil" && i < len(sf.Args) {
				v.S = fx.nilOf(sf.Args[i])
			}
			args = append(args, v.S)
		}
		if len(args) != len(sf.Args) {
			return cval{}, fmt.Errorf("spec function %s expects %d arguments", fn.Name, len(sf.Args))
		}
		if len(args) == 0 {
			return cval{S: fn.Name, Sort: sf.Ret}, nil
		}
		return cval{S: "(" + fn.Name + " " + strings.Join(args, " ") + ")", Sort: sf.Ret}, nil
	}
	if strings.HasPrefix(fn.Name, "uf_") {
		// uninterpreted boolean predicate declared on first use over the sorts of its arguments
		var args, sorts []string
		for _, a := range x.Args {
			v, err := fx.evalC(a, env)
			if err != nil {
				return cval{}, err
			}
			args = append(args, v.S)
			sorts = append(sorts, v.Sort)
		}
		fx.declareFun(fn.Name, sorts, "Bool")
		return boolr("(" + fn.Name + " " + strings.Join(args, " ") + ")")
	}
	for _, pf := range [][2]string{{"ufI_", "Iface"}, {"ufS_", "Slice"}, {"ufs_", "Str"}, {"ufV_", "S_reflect_Value"}} {
		if strings.HasPrefix(fn.Name, pf[0]) {
			// uninterpreted function with the result sort named by the prefix, declared on first use
			var args, sorts []string
			for _, a := range x.Args {
				v, err := fx.evalC(a, env)
				if err != nil {
					return cval{}, err
				}
				if v.S == "" && v.P != nil {
					v.S = fx.materialise(Val{P: v.P, T: v.T})
				}
				args = append(args, v.S)
				sorts = append(sorts, v.Sort)
			}
			if pf[1] == "S_reflect_Value" {
				// make sure the datatype is declared even when the function at hand never
				// touches a reflect.Value itself (the name comes from a callee's contract)
				if t := fx.W.typeByName("reflect.Value"); t != nil {
					fx.sortOf(t)
				}
			}
			fx.declareFun(fn.Name, sorts, pf[1])
			rv := cval{S: "(" + fn.Name + " " + strings.Join(args, " ") + ")", Sort: pf[1]}
			switch pf[1] {
			case "Iface":
				rv.T = types.NewInterfaceType(nil, nil)
			case "Slice":
				rv.T = types.NewSlice(types.Typ[types.Int])
			case "Str":
				rv.T = types.Typ[types.String]
			case "S_reflect_Value":
				rv.T = fx.W.typeByName("reflect.Value")
			}
			return rv, nil
		}
	}
	if strings.HasPrefix(fn.Name, "mk_") {
		// struct value constructor: mk_<StructName>(field values in order)
		t := fx.W.typeByName(fn.Name[3:])
		if t == nil {
			return cval{}, fmt.Errorf("%s: unknown struct type", fn.Name)
		}
		st, ok := t.Underlying().(*types.Struct)
		if !ok || st.NumFields() != len(x.Args) {
			return cval{}, fmt.Errorf("%s: expects %d field values", fn.Name, st.NumFields())
		}
		si := fx.W.structInfoOf(t)
		parts := []string{"(mk-" + si.sort}
		for _, a := range x.Args {
			v, err := fx.evalC(a, env)
			if err != nil {
				return cval{}, err
			}
			parts = append(parts, v.S)
		}
		return cval{S: strings.Join(parts, " ") + ")", Sort: si.sort, T: t}, nil
	}
	if strings.HasPrefix(fn.Name, "ufi_") {
		// uninterpreted integer-valued function declared on first use
		var args, sorts []string
		for _, a := range x.Args {
			v, err := fx.evalC(a, env)
			if err != nil {
				return cval{}, err
			}
			args = append(args, v.S)
			sorts = append(sorts, v.Sort)
		}
		fx.declareFun(fn.Name, sorts, "Int")
		return cval{S: "(" + fn.Name + " " + strings.Join(args, " ") + ")", Sort: "Int", T: types.Typ[types.Int]}, nil
	}
	switch fn.Name {
	case "witem", "wlen", "ditem", "dlen", "ritem", "rlen", "rpos":
		v, err := fx.evalC(x.Args[0], env)
		if err != nil {
			return cval{}, err
		}
		ref := streamRef(v)
		if fn.Name == "ditem" || fn.Name == "dlen" {
			if v.Sort != "Slice" {
				return cval{}, fmt.Errorf("%s: not a byte slice", fn.Name)
			}
			ref = "(s.arr " + v.S + ")"
		}
		var r string
		var rs string
		var kerr error
		fx.withHeap(env.heap, func() {
			switch fn.Name {
			case "wlen":
				r, rs = "(select "+fx.wlen()+" "+ref+")", "Int"
			case "dlen":
				r, rs = "(select "+fx.dlen()+" "+ref+")", "Int"
			case "rlen":
				r, rs = "(select "+fx.rlen()+" "+ref+")", "Int"
			case "rpos":
				r, rs = "(select "+fx.rpos()+" "+ref+")", "Int"
			default:
				k, err := fx.evalC(x.Args[1], env)
				if err != nil {
					kerr = err
					return
				}
				h := map[string]func() string{"witem": fx.witems, "ditem": fx.ditems, "ritem": fx.ritems}[fn.Name]()
				r, rs = "(select (select "+h+" "+ref+") "+k.S+")", "Item"
			}
		})
		if kerr != nil {
			return cval{}, kerr
		}
		return cval{S: r, Sort: rs}, nil
	case "substr": // substr(s, lo, hi): the Go slice expression s[lo:hi] on strings
		if len(x.Args) != 3 {
			return cval{}, fmt.Errorf("substr takes 3 arguments")
		}
		var as [3]string
		for i := 0; i < 3; i++ {
			v, err := fx.evalC(x.Args[i], env)
			if err != nil {
				return cval{}, err
			}
			as[i] = v.S
		}
		fx.declareFun("substr", []string{"Str", "Int", "Int"}, "Str")
		term := "(substr " + as[0] + " " + as[1] + " " + as[2] + ")"
		if fx.C != nil && fx.C.StringContent && !env.inQuant {
			// what s[lo:hi] is, byte by byte (where the slice expression is defined)
			key := "substr-content " + term
			if !fx.declared[key] {
				fx.declared[key] = true
				inb := "(and (<= 0 " + as[1] + ") (<= " + as[1] + " " + as[2] + ") (<= " + as[2] + " (slen " + as[0] + ")))"
				fx.assumeGlobal("(=> " + inb + " (and (= (slen " + term + ") (- " + as[2] + " " + as[1] + ")) (forall ((qi Int)) (! (=> (and (<= 0 qi) (< qi (- " + as[2] + " " + as[1] + "))) (= (sat " + term + " qi) (sat " + as[0] + " (+ " + as[1] + " qi)))) :pattern ((sat " + term + " qi))))))")
			}
		}
		return cval{S: term, Sort: "Str", T: types.Typ[types.String]}, nil
	case "bytesStr": // content of a []byte as a string
		v, err := fx.evalC(x.Args[0], env)
		if err != nil {
			return cval{}, err
		}
		var r string
		fx.withHeap(env.heap, func() { r = fx.bytesAsStr(v.S) })
		return cval{S: r, Sort: "Str", T: types.Typ[types.String]}, nil
	}
	if fn.Name == "gsel" || fn.Name == "gstore" {
		// ghost arrays: gsel(a, k), gstore(a, k, v)
		a, err := fx.evalC(x.Args[0], env)
		if err != nil {
			return cval{}, err
		}
		k, err := fx.evalC(x.Args[1], env)
		if err != nil {
			return cval{}, err
		}
		if k.S == "" && k.P != nil {
			k.S = fx.materialise(Val{P: k.P, T: k.T})
		}
		es := arrayElemSort(a.Sort)
		if fn.Name == "gsel" {
			return cval{S: "(select " + a.S + " " + k.S + ")", Sort: es}, nil
		}
		v, err := fx.evalC(x.Args[2], env)
		if err != nil {
			return cval{}, err
		}
		return cval{S: "(store " + a.S + " " + k.S + " " + v.S + ")", Sort: a.Sort}, nil
	}
	if fn.Name == "elemsArr" || fn.Name == "off" || fn.Name == "arrRef" {
		v, err := fx.evalC(x.Args[0], env)
		if err != nil {
			return cval{}, err
		}
		st, ok := v.T.Underlying().(*types.Slice)
		if !ok {
			return cval{}, fmt.Errorf("%s: not a slice", fn.Name)
		}
		if fn.Name == "arrRef" { // identity of the backing array
			return cval{S: "(s.arr " + v.S + ")", Sort: "Int", T: types.Typ[types.Int]}, nil
		}
		if fn.Name == "off" {
			return cval{S: "(s.off " + v.S + ")", Sort: "Int", T: types.Typ[types.Int]}, nil
		}
		var r string
		fx.withHeap(env.heap, func() {
			name, sort := fx.elemHeap(st.Elem())
			r = "(select " + fx.heapArr(name, sort) + " (s.arr " + v.S + "))"
		})
		return cval{S: r, Sort: "(Array Int " + fx.sortOf(st.Elem()) + ")"}, nil
	}
	if fn.Name == "ownedFresh" {
		// ownedFresh(r): r is nil or an object owned exclusively by the pooled object. Where the
		// invariant is assumed (pool Get) the object is numbered like an allocation of the getter;
		// where it is checked (Put, New) it must be nil or created by that activation.
		v, err := fx.evalC(x.Args[0], env)
		if err != nil {
			return cval{}, err
		}
		if env.adopt {
			fx.allocBase()
			t := "(or (= " + v.S + " 0) (= " + v.S + " (+ alloc_base " + fx.allocCount() + " 1)))"
			fx.bumpAlloc()
			return boolr(t)
		}
		return boolr("(or (= " + v.S + " 0) (> " + v.S + " " + fx.allocBase() + "))")
	}
	if fn.Name == "freshRef" {
		v, err := fx.evalC(x.Args[0], env)
		if err != nil {
			return cval{}, err
		}
		return boolr("(> " + v.S + " " + fx.allocBase() + ")")
	}
	if fn.Name == "freshArr" {
		v, err := fx.evalC(x.Args[0], env)
		if err != nil {
			return cval{}, err
		}
		if v.Sort != "Slice" {
			return cval{}, fmt.Errorf("freshArr: not a slice")
		}
		return boolr("(> (s.arr " + v.S + ") " + fx.allocBase() + ")")
	}
	if strings.HasPrefix(fn.Name, "fn_") {
		if name, k, f := fx.W.lookupFnSpec(fn.Name); f != nil {
			var args []string
			for _, a := range x.Args {
				v, err := fx.evalC(a, env)
				if err != nil {
					return cval{}, err
				}
				args = append(args, v.S)
			}
			fx.declareFnSpec(f)
			rt := f.Signature.Results().At(k).Type()
			return cval{S: "(" + name + " " + strings.Join(args, " ") + ")", Sort: fx.sortOf(rt), T: rt}, nil
		}
	}
	// uninterpreted helper declared on the fly by the executor (runecount, …)
	if fx.declared[fn.Name] {
		var args []string
		for _, a := range x.Args {
			v, err := fx.evalC(a, env)
			if err != nil {
				return cval{}, err
			}
			args = append(args, v.S)
		}
		return cval{S: "(" + fn.Name + " " + strings.Join(args, " ") + ")", Sort: "Int"}, nil
	}
	return cval{}, fmt.Errorf("unknown function %q in contract", fn.Name)
}

func specSortOf(s string) (string, types.Type) {
	switch s {
	case "int":
		return "Int", types.Typ[types.Int]
	case "bool":
		return "Bool", types.Typ[types.Bool]
	case "string":
		return "Str", types.Typ[types.String]
	case "any":
		return "Iface", types.NewInterfaceType(nil, nil)
	}
	return s, nil
}

func (w *World) typeByName(name string) types.Type {
	switch name {
	case "any", "interface{}":
		return types.NewInterfaceType(nil, nil)
	}
	for _, b := range types.Typ {
		if b.Name() == name {
			return b
		}
	}
	if strings.HasPrefix(name, "*") {
		if t := w.typeByName(name[1:]); t != nil {
			return types.NewPointer(t)
		}
		return nil
	}
	if strings.HasPrefix(name, "[]") {
		if t := w.typeByName(name[2:]); t != nil {
			return types.NewSlice(t)
		}
		return nil
	}
	if strings.HasPrefix(name, "map[") {
		d := 0
		for i := 3; i < len(name); i++ {
			if name[i] == '[' {
				d++
			} else if name[i] == ']' {
				d--
				if d == 0 {
					k, v := w.typeByName(name[4:i]), w.typeByName(name[i+1:])
					if k != nil && v != nil {
						return types.NewMap(k, v)
					}
					return nil
				}
			}
		}
	}
	if obj := w.Pkg.Pkg.Scope().Lookup(name); obj != nil {
		if tn, ok := obj.(*types.TypeName); ok {
			return tn.Type()
		}
	}
	if i := strings.Index(name, "."); i > 0 {
		for _, imp := range w.Pkg.Pkg.Imports() {
			if imp.Name() == name[:i] {
				if obj := imp.Scope().Lookup(name[i+1:]); obj != nil {
					if tn, ok := obj.(*types.TypeName); ok {
						return tn.Type()
					}
				}
			}
		}
	}
	return nil
}

// specText is the concatenated SMT prelude of /verif/spec/*.smt2.
func (cf *ContractFile) SpecText() string { return cf.specText }

// mergeContract adds the clauses of a group to a contract. Clauses whose props are the group's
// defaults inherit them; explicit per-clause props are kept.
func mergeContract(dst, grp *Contract) {
	dst.Requires = append(dst.Requires, grp.Requires...)
	dst.Ensures = append(dst.Ensures, grp.Ensures...)
	dst.Modifies = append(dst.Modifies, grp.Modifies...)
	if grp.HasModifies {
		dst.HasModifies = true
	}
	for k, v := range grp.LoopInv {
		dst.LoopInv[k] = append(dst.LoopInv[k], v...)
	}
	for k, v := range grp.LoopEntry {
		if dst.LoopEntry == nil {
			dst.LoopEntry = map[int][]*CExpr{}
		}
		dst.LoopEntry[k] = append(dst.LoopEntry[k], v...)
	}
	for k, v := range grp.LoopStep {
		if dst.LoopStep == nil {
			dst.LoopStep = map[int][]*CExpr{}
		}
		dst.LoopStep[k] = append(dst.LoopStep[k], v...)
	}
	for k, v := range grp.LoopSnap {
		if dst.LoopSnap == nil {
			dst.LoopSnap = map[int][]*Snap{}
		}
		dst.LoopSnap[k] = append(dst.LoopSnap[k], v...)
	}
	for k, v := range grp.Nilable {
		dst.Nilable[k] = v
	}
	for k, v := range grp.NonNil {
		dst.NonNil[k] = v
	}
	for k, v := range grp.Flags {
		if _, ok := dst.Flags[k]; !ok {
			dst.Flags[k] = v
		}
	}
	if grp.ArithChecked {
		dst.ArithChecked = true
	}
	dst.AtCall = append(dst.AtCall, grp.AtCall...)
	for k, v := range grp.GhostSet {
		if dst.GhostSet == nil {
			dst.GhostSet = map[string]*CExpr{}
		}
		dst.GhostSet[k] = v
		if grp.GhostAssign[k] {
			if dst.GhostAssign == nil {
				dst.GhostAssign = map[string]bool{}
			}
			dst.GhostAssign[k] = true
		}
	}
	if grp.Fresh {
		dst.Fresh = true
	}
	if grp.Assumed {
		dst.Assumed = true
	}
	for _, p := range grp.Props {
		if !hasProp(dst.Props, p) {
			dst.Props = append(dst.Props, p)
		}
	}
}

func globMatch(glob, name string) bool {
	parts := strings.Split(glob, "*")
	if len(parts) == 1 {
		return glob == name
	}
	if !strings.HasPrefix(name, parts[0]) {
		return false
	}
	name = name[len(parts[0]):]
	for i := 1; i < len(parts)-1; i++ {
		k := strings.Index(name, parts[i])
		if k < 0 {
			return false
		}
		name = name[k+len(parts[i]):]
	}
	return strings.HasSuffix(name, parts[len(parts)-1])
}

// resolveFileApplies instantiates `applyfile GROUP FILE` for every function declared in the file.
func (cf *ContractFile) resolveFileApplies(fileOf map[string]string) error {
	for _, ap := range cf.FileApplies {
		grp := cf.Groups[ap[0]]
		if grp == nil {
			return fmt.Errorf("applyfile: unknown group %q", ap[0])
		}
		var names []string
		for fn, file := range fileOf {
			if file == ap[1] {
				names = append(names, fn)
			}
		}
		sort.Strings(names)
		for _, fn := range names {
			ct := cf.ByName[fn]
			if ct == nil {
				ct = &Contract{Kind: "func", Name: fn, LoopInv: map[int][]*CExpr{}, LoopDec: map[int]*CExpr{},
					Nilable: map[string]bool{}, NonNil: map[string]bool{}, Flags: map[string]string{}, Line: grp.Line}
				cf.ByName[fn] = ct
				cf.Order = append(cf.Order, ct)
			}
			mergeContract(ct, grp)
		}
	}
	return nil
}

// resolveApplies instantiates `apply GROUP GLOB` for every matching function.
func (cf *ContractFile) resolveApplies(funcNames []string) error {
	for _, ap := range cf.Applies {
		grp := cf.Groups[ap[0]]
		if grp == nil {
			return fmt.Errorf("apply: unknown group %q", ap[0])
		}
		n := 0
		for _, fn := range funcNames {
			if !globMatch(ap[1], fn) {
				continue
			}
			n++
			ct := cf.ByName[fn]
			if ct == nil {
				ct = &Contract{Kind: "func", Name: fn, LoopInv: map[int][]*CExpr{}, LoopDec: map[int]*CExpr{},
					Nilable: map[string]bool{}, NonNil: map[string]bool{}, Flags: map[string]string{}, Line: grp.Line}
				cf.ByName[fn] = ct
				cf.Order = append(cf.Order, ct)
			}
			mergeContract(ct, grp)
		}
		if n == 0 {
			// not a package function: a dependency named literally (e.g. (*strings.Builder).WriteString)
			ct := cf.ByName[ap[1]]
			if ct == nil {
				ct = &Contract{Kind: "func", Name: ap[1], LoopInv: map[int][]*CExpr{}, LoopDec: map[int]*CExpr{},
					Nilable: map[string]bool{}, NonNil: map[string]bool{}, Flags: map[string]string{}, Line: grp.Line}
				cf.ByName[ap[1]] = ct
				cf.Order = append(cf.Order, ct)
			}
			mergeContract(ct, grp)
		}
	}
	return nil
}

func isWordByte(c byte) bool {
	return c == '_' || (c >= '0' && c <= '9') || (c >= 'a' && c <= 'z') || (c >= 'A' && c <= 'Z')
}

// indexWord finds `pat` in s at an identifier boundary on the left.
func indexWord(s, pat string) int {
	from := 0
	for {
		k := strings.Index(s[from:], pat)
		if k < 0 {
			return -1
		}
		k += from
		if k == 0 || !(isWordByte(s[k-1]) || s[k-1] == '.') {
			return k
		}
		from = k + 1
	}
}

func replaceWord(s, word, repl string) string {
	var b strings.Builder
	for i := 0; i < len(s); {
		if strings.HasPrefix(s[i:], word) && (i == 0 || !(isWordByte(s[i-1]) || s[i-1] == '.')) &&
			(i+len(word) >= len(s) || !isWordByte(s[i+len(word)])) {
			b.WriteString(repl)
			i += len(word)
			continue
		}
		b.WriteByte(s[i])
		i++
	}
	return b.String()
}

// arrayElemSort: "(Array Int Str)" -> "Str"
func arrayElemSort(s string) string {
	s = strings.TrimSpace(s)
	if !strings.HasPrefix(s, "(Array ") {
		return "Int"
	}
	inner := strings.TrimSuffix(strings.TrimPrefix(s, "(Array "), ")")
	_, j := readSexp(inner, 0)
	return strings.TrimSpace(inner[j:])
}
