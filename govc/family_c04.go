package main

// C04: the nodes that carry literal text do not look at the render context, and a comment node
// produces no output. Both are structural facts about the function bodies:
//
//   ctx-unused     (list ctx_unused) the *RenderContext parameter of the function has no use at all,
//                  so nothing of the context can reach the writer (verbatim bodies, literal text);
//   writes-nothing (list writes_nothing) the function contains no call and no store: it cannot
//                  write to its writer.

import (
	"golang.org/x/tools/go/ssa"
)

func init() {
	families["C04"] = append(families["C04"], literalNodesFamily)
}

func literalNodesFamily(w *World, prop string) ([]*Obligation, []string) {
	var out []*Obligation
	mk := func(name, kind string, ok bool, why string) {
		fn := w.Funcs[name]
		o := &Obligation{Name: name + "/" + kind + "#1", Kind: kind, Func: name, PC: "true", Goal: kind, Props: []string{"C04"}, Comment: why}
		if fn != nil && len(fn.Blocks) > 0 {
			o.Pos, o.Src = w.posAndSrc(fn.Blocks[0].Instrs[0])
		}
		if ok {
			o.Custom = "(set-logic ALL)(assert false)"
		} else {
			o.Custom = "(set-logic ALL)(assert true)"
		}
		out = append(out, o)
	}
	for _, name := range w.Contracts.Lists["ctx_unused"] {
		fn := w.Funcs[name]
		if fn == nil {
			mk(name, "ctx-unused", false, "function named in list ctx_unused no longer exists")
			continue
		}
		ok, found := true, false
		for _, p := range fn.Params {
			if !isRenderContextPtr(p.Type()) {
				continue
			}
			found = true
			if refs := p.Referrers(); refs != nil {
				for _, r := range *refs {
					if _, isDbg := r.(*ssa.DebugRef); !isDbg {
						ok = false
					}
				}
			}
		}
		mk(name, "ctx-unused", ok && found, "the render context handed to the node is not used: nothing of it can reach the output")
	}
	for _, name := range w.Contracts.Lists["writes_nothing"] {
		fn := w.Funcs[name]
		if fn == nil {
			mk(name, "writes-nothing", false, "function named in list writes_nothing no longer exists")
			continue
		}
		ok := true
		for _, b := range fn.Blocks {
			for _, in := range b.Instrs {
				switch in.(type) {
				case *ssa.Call, *ssa.Store, *ssa.MapUpdate, *ssa.Go, *ssa.Defer, *ssa.Send:
					ok = false
				}
			}
		}
		mk(name, "writes-nothing", ok, "the function contains no call and no store: it produces no output")
	}
	return out, []string{"literal-text nodes examined for use of the context / for any output"}
}
