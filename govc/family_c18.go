package main

// C18: rendering never modifies the caller's data (family F4).
//
// For every function of the render path, every instruction that writes into memory that can hold
// caller data (maps and slices of interface{}/basic element types, and anything behind reflect)
// must hit an object allocated by this activation (make, literals, []rune(s), results of
// callees whose contract says fresh, pool objects), or one of the engine-owned maps of a render
// context (RenderContext.context/blocks/parentBlocks/macros), which by the field discipline below
// are never the caller's objects:
//
//   own-field   every store to RenderContext.context (etc.) stores a map that is fresh or was read
//               from such a field
//   write       every MapUpdate/delete/element store/append-in-place/copy targets a fresh object or
//               an engine-owned map
//   std         sort.*, reflect.Value.Set*, reflect.Copy, reflect.Append: assumed contracts whose
//               preconditions demand a fresh target (checked here as `pre` obligations)

import (
	"fmt"
	"go/types"
	"strings"

	"golang.org/x/tools/go/ssa"
)

func init() {
	families["C18"] = append(families["C18"], callerDataFamily)
	// a render that writes into the data it was handed changes what the next render of the same
	// context prints: the same obligations are what repeatability (C01) and determinism (C03)
	// need from the filters and functions
	// (C19: the defining equation of a filter speaks about the value and the arguments the template
	// wrote; a filter that writes into its argument list or into its value changes the arguments of
	// the next filter of a chain, whose backing array it may share - round 6, C19-12)
	for _, p := range []string{"C01", "C03", "C19"} {
		pp := p
		families[pp] = append(families[pp], func(w *World, _ string) ([]*Obligation, []string) {
			obls, notes := callerDataFamily(w, "C18")
			for _, o := range obls {
				o.Props = []string{pp}
			}
			return obls, notes
		})
	}
}

func isPkgInternalType(t types.Type) bool {
	switch u := t.(type) {
	case *types.Named:
		if u.Obj().Pkg() != nil && u.Obj().Pkg().Path() == "github.com/semihalev/twig" {
			return true
		}
		return false
	case *types.Alias:
		return isPkgInternalType(types.Unalias(u))
	case *types.Pointer:
		return isPkgInternalType(u.Elem())
	case *types.Slice:
		return isPkgInternalType(u.Elem())
	case *types.Map:
		return isPkgInternalType(u.Elem()) || isPkgInternalType(u.Key())
	case *types.Signature:
		return true
	}
	return false
}

// ownedMapFields: maps held in these fields are engine-owned.
var ownedMapFields = map[string]bool{"context": true, "blocks": true, "parentBlocks": true, "macros": true}

// fromOwnedField: the value is a direct load of an engine-owned map field of a render context.
func fromOwnedField(v ssa.Value) bool {
	u, ok := v.(*ssa.UnOp)
	if !ok {
		return false
	}
	fa, ok := u.X.(*ssa.FieldAddr)
	if !ok || !isRenderContextPtr(fa.X.Type()) {
		return false
	}
	st := fa.X.Type().Underlying().(*types.Pointer).Elem().Underlying().(*types.Struct)
	return ownedMapFields[st.Field(fa.Field).Name()]
}

func callerDataFamily(w *World, prop string) ([]*Obligation, []string) {
	var out []*Obligation
	files := map[string]bool{}
	for _, f := range w.Contracts.Lists["callerdata_files"] {
		files[f] = true
	}
	skip := map[string]bool{}
	for _, n := range expandFuncList(w, w.Contracts.Lists["callerdata_exempt"]) {
		skip[n] = true
	}
	nfn, nw := 0, 0
	for _, name := range sortedKeys(w.Funcs) {
		fn := w.Funcs[name]
		if len(fn.Blocks) == 0 || skip[name] {
			continue
		}
		pos := w.Fset.Position(fn.Pos())
		short := pos.Filename
		if i := strings.LastIndex(short, "/"); i >= 0 {
			short = short[i+1:]
		}
		if !files[short] {
			continue
		}
		// reflection: a function that walks the caller's values with package reflect never takes a
		// reference into them (Addr, UnsafeAddr, UnsafePointer): what it hands on are copies
		// (Interface), so a pointer-receiver method or a later write cannot reach the caller's data
		usesReflect, takesAddr := false, ""
		for _, b := range fn.Blocks {
			for _, in := range b.Instrs {
				ci, ok := in.(ssa.CallInstruction)
				if !ok {
					continue
				}
				if f := ci.Common().StaticCallee(); f != nil && f.Pkg != nil && f.Pkg.Pkg.Path() == "reflect" {
					usesReflect = true
					switch f.Name() {
					case "Addr", "UnsafeAddr", "UnsafePointer":
						if f.Signature.Recv() != nil {
							p, _ := w.posAndSrc(in)
							takesAddr = f.Name() + " at " + p
						}
					}
				}
			}
		}
		if usesReflect {
			goal := "true"
			if takesAddr != "" {
				goal = "false"
			}
			out = append(out, &Obligation{Name: name + "/reflect-ref#1", Kind: "reflect-ref", Func: name, Goal: goal, PC: "true", Props: []string{"C18"},
				Comment: "no reference into a value of the caller's is taken through reflection (Addr, UnsafeAddr, UnsafePointer)" + ifs(takesAddr != "", " — "+takesAddr, ""), Custom: "(assert " + not(goal) + ")"})
		}
		base := w.Contracts.ByName[name]
		ct := deriveContract(base, name)
		fx := newFnExec(w, fn, ct)
		sites := 0
		fx.onStore = func(fx *FnExec, in ssa.Instruction, pl *Place, v Val) {
			var elemT types.Type
			var ref string
			what := ""
			owned := false
			switch x := in.(type) {
			case *ssa.MapUpdate:
				mt := x.Map.Type().Underlying().(*types.Map)
				if isPkgInternalType(mt.Elem()) || isPkgInternalType(mt.Key()) {
					return
				}
				elemT, ref, what = mt, pl.Ref, "map update"
				owned = fromOwnedField(x.Map)
			case *ssa.Store:
				// field stores: discipline for the owned map fields
				if pl.Kind == PField && pl.Base == nil && pl.SName == "RenderContext" && ownedMapFields[pl.Struct.Field(pl.Field).Name()] {
					goal := or("(= "+v.S+" 0)", "(> "+v.S+" "+fx.allocBase()+")")
					if fromOwnedField(x.Val) {
						goal = "true"
					}
					o := fx.oblige("own-field", goal, in, "only maps created by the engine are stored in RenderContext."+pl.Struct.Field(pl.Field).Name())
					o.Props = []string{"C18"}
					sites++
					return
				}
				root := pl
				for root.Kind == PField && root.Base != nil {
					root = root.Base
				}
				if root.Kind != PElem {
					return // stores to struct fields / locals are engine-owned memory
				}
				if isPkgInternalType(root.Elem) {
					return
				}
				elemT, ref, what = root.Elem, root.Arr, "element store"
			default:
				// append in place / copy / delete
				if c, ok := in.(ssa.CallInstruction); ok {
					b, _ := c.Common().Value.(*ssa.Builtin)
					if b == nil {
						return
					}
					switch b.Name() {
					case "delete":
						mt := c.Common().Args[0].Type().Underlying().(*types.Map)
						if isPkgInternalType(mt.Elem()) || isPkgInternalType(mt.Key()) {
							return
						}
						elemT, ref, what = mt, pl.Ref, "delete"
						owned = fromOwnedField(c.Common().Args[0])
					case "append", "copy":
						st, ok := c.Common().Args[0].Type().Underlying().(*types.Slice)
						if !ok || isPkgInternalType(st.Elem()) {
							return
						}
						elemT, ref, what = st.Elem(), pl.Arr, b.Name()+" into existing backing array"
					default:
						return
					}
				} else {
					return
				}
			}
			_ = elemT
			sites++
			nw++
			goal := "(> " + ref + " " + fx.allocBase() + ")"
			if owned {
				goal = "true"
			}
			o := fx.oblige("write", goal, in, what+" hits an object created by this activation or an engine-owned map, never caller data")
			o.Props = []string{"C18"}
		}
		obls, err := fx.Run()
		if err != nil {
			out = append(out, &Obligation{Name: name + "/write#0", Kind: "write", Func: name, Goal: "false", PC: "true", Props: []string{"C18"},
				Comment: "translation failed: " + err.Error(), Custom: "(assert true)"})
			continue
		}
		if sites > 0 {
			nfn++
		}
		for _, o := range obls {
			if o.Kind == "write" || o.Kind == "own-field" {
				out = append(out, o)
			}
			if (o.Kind == "pre" || o.Kind == "inv-entry" || o.Kind == "inv-pres") && hasProp(o.Props, "C18") {
				out = append(out, o)
			}
		}
	}
	return out, []string{fmt.Sprintf("functions with writes to caller-data-capable memory: %d; write sites: %d", nfn, nw)}
}
