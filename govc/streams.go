package main

// Item-level model of byte streams for the compiled-template format (C16).
//
// A byte buffer is viewed as the sequence of *items* that were written into it: fixed-width
// integers written by encoding/binary.Write and byte strings written by Write. Reading consumes
// items from the front. That encoding/binary reads back exactly the bytes it wrote for the same
// type (dec_N(le_N(x)) == x, item boundaries preserved) is the assumed contract of the dependency;
// what is proved on the real code is that writer and reader agree on the sequence, kinds, widths
// and order of the items, and on the relation between each length prefix and its payload.
//
// Ghost heaps (ordinary heap arrays, so they are merged/havocked like memory):
//   G_witems[b] : items written to buffer/writer object b     G_wlen[b] : how many
//   G_ditems[a] : items represented by the byte array a       G_dlen[a]
//   G_ritems[r], G_rlen[r], G_rpos[r] : reader object r and its cursor
// The model is active in functions whose contract carries `flag streams yes`.

import (
	"go/types"

	"golang.org/x/tools/go/ssa"
)

const itemsSort = "(Array Int Item)"

func (fx *FnExec) streamsOn() bool {
	return fx.C != nil && fx.C.Flags["streams"] != ""
}

func (fx *FnExec) gheap(name, sort string) string { return fx.heapArr(name, sort) }

func (fx *FnExec) witems() string { return fx.gheap("G_witems", "(Array Int "+itemsSort+")") }
func (fx *FnExec) wlen() string   { return fx.gheap("G_wlen", "(Array Int Int)") }
func (fx *FnExec) ditems() string { return fx.gheap("G_ditems", "(Array Int "+itemsSort+")") }
func (fx *FnExec) dlen() string   { return fx.gheap("G_dlen", "(Array Int Int)") }
func (fx *FnExec) ritems() string { return fx.gheap("G_ritems", "(Array Int "+itemsSort+")") }
func (fx *FnExec) rlen() string   { return fx.gheap("G_rlen", "(Array Int Int)") }
func (fx *FnExec) rpos() string   { return fx.gheap("G_rpos", "(Array Int Int)") }

func (fx *FnExec) appendItem(w, item string) {
	wi, wl := fx.witems(), fx.wlen()
	n := "(select " + wl + " " + w + ")"
	fx.setHeap("G_witems", "(Array Int "+itemsSort+")", "(store "+wi+" "+w+" (store (select "+wi+" "+w+") "+n+" "+item+"))")
	fx.setHeap("G_wlen", "(Array Int Int)", "(store "+wl+" "+w+" (+ "+n+" 1))")
}

// itemOfValue: the item written by binary.Write for a value of the given static type.
func itemOfValue(t types.Type, term string) (string, bool) {
	b, ok := t.Underlying().(*types.Basic)
	if !ok {
		return "", false
	}
	switch b.Kind() {
	case types.Uint8:
		return "(iU8 " + term + ")", true
	case types.Uint16:
		return "(iU16 " + term + ")", true
	case types.Uint32:
		return "(iU32 " + term + ")", true
	case types.Int64:
		return "(iI64 " + term + ")", true
	case types.Uint64:
		return "(iU64 " + term + ")", true
	case types.Int32:
		return "(iI32 " + term + ")", true
	}
	return "", false
}

func itemMatch(t types.Type, item string) (isKind, val string, ok bool) {
	b, isB := t.Underlying().(*types.Basic)
	if !isB {
		return "", "", false
	}
	switch b.Kind() {
	case types.Uint8:
		return "((_ is iU8) " + item + ")", "(u8val " + item + ")", true
	case types.Uint16:
		return "((_ is iU16) " + item + ")", "(u16val " + item + ")", true
	case types.Uint32:
		return "((_ is iU32) " + item + ")", "(u32val " + item + ")", true
	case types.Int64:
		return "((_ is iI64) " + item + ")", "(i64val " + item + ")", true
	case types.Uint64:
		return "((_ is iU64) " + item + ")", "(u64val " + item + ")", true
	case types.Int32:
		return "((_ is iI32) " + item + ")", "(i32val " + item + ")", true
	}
	return "", "", false
}

// bytesAsStr: the content of a byte slice as a Str term.
func (fx *FnExec) bytesAsStr(slice string) string {
	name, sort := fx.elemHeap(types.Typ[types.Byte])
	h := fx.heapArr(name, sort)
	return "(str_of_bytes (select " + h + " (s.arr " + slice + ")) (s.off " + slice + ") (s.len " + slice + "))"
}

func unwrapIfacePtr(v ssa.Value) ssa.Value {
	if mi, ok := v.(*ssa.MakeInterface); ok {
		return mi.X
	}
	if ci, ok := v.(*ssa.ChangeInterface); ok {
		return unwrapIfacePtr(ci.X)
	}
	return v
}

// streamCall models the stream-related std calls. Returns true when the call was handled.
func (fx *FnExec) streamCall(in ssa.Instruction, c *ssa.CallCommon, args []Val, setRes func(Val)) bool {
	if !fx.streamsOn() {
		return false
	}
	errT := types.Universe.Lookup("error").Type()
	nilErr := Val{T: errT, S: "(mk-iface 0 0)"}
	someErr := func() Val {
		e := fx.havoc("rderr", "Iface")
		return Val{T: errT, S: e}
	}
	name := ""
	if f := c.StaticCallee(); f != nil {
		name = f.String()
	} else if c.IsInvoke() {
		name = "invoke:" + namedTypeName(c.Value.Type()) + "." + c.Method.Name()
	}
	switch name {
	case "encoding/binary.Write":
		w := "(i.pay " + fx.term(args[0]) + ")"
		x := unwrapIfacePtr(c.Args[2])
		item, ok := itemOfValue(x.Type(), fx.term(fx.val(x)))
		if !ok {
			return false
		}
		fx.appendItem(w, item)
		// writing a fixed-size value into an in-memory buffer cannot fail; into an arbitrary
		// writer it may (then nothing is known about what was written)
		e := fx.havoc("wrerr", "Iface")
		if pt, isPtr := unwrapIfacePtr(c.Args[0]).Type().Underlying().(*types.Pointer); isPtr && namedTypeName(pt.Elem()) == "bytes.Buffer" {
			fx.assume("(= " + e + " (mk-iface 0 0))")
		}
		setRes(Val{T: errT, S: e})
		return true
	case "(*bytes.Buffer).Write", "invoke:io.Writer.Write":
		var w string
		if name == "(*bytes.Buffer).Write" {
			w = fx.term(args[0])
		} else {
			w = "(i.pay " + fx.term(args[0]) + ")"
		}
		p := fx.term(args[1])
		fx.appendItem(w, "(iBytes "+fx.bytesAsStr(p)+")")
		n := fx.havoc("wn", "Int")
		e := fx.havoc("wrerr", "Iface")
		if name == "(*bytes.Buffer).Write" {
			fx.assume("(= " + e + " (mk-iface 0 0))")
		}
		fx.assume("(=> (= " + e + " (mk-iface 0 0)) (= " + n + " (s.len " + p + ")))")
		setRes(Val{Tup: []Val{{T: types.Typ[types.Int], S: n}, {T: errT, S: e}}})
		return true
	case "(*bytes.Buffer).Reset":
		b := fx.term(args[0])
		fx.setHeap("G_wlen", "(Array Int Int)", "(store "+fx.wlen()+" "+b+" 0)")
		return true
	case "(*bytes.Buffer).Bytes":
		b := fx.term(args[0])
		// the result is a view of the buffer's own storage: not a new object (whoever keeps it
		// shares memory with the buffer, which matters when the buffer goes back to a pool)
		fx.declareFun("bufStorage", []string{"Int"}, "Int")
		arr := "(bufStorage " + b + ")"
		fx.assume("(and (> " + arr + " 0) (< " + arr + " " + fx.allocBase() + "))")
		ln := fx.havoc("byteslen", "Int")
		fx.assumeGlobal("(and (>= " + ln + " 0) (<= " + ln + " 4611686018427387904))")
		fx.setHeap("G_ditems", "(Array Int "+itemsSort+")", "(store "+fx.ditems()+" "+arr+" (select "+fx.witems()+" "+b+"))")
		fx.setHeap("G_dlen", "(Array Int Int)", "(store "+fx.dlen()+" "+arr+" (select "+fx.wlen()+" "+b+"))")
		setRes(Val{S: "(mk-slice " + arr + " 0 " + ln + " " + ln + ")"})
		return true
	case "bytes.Clone":
		x := fx.term(args[0])
		arr := fx.freshRef("clone")
		fx.setHeap("G_ditems", "(Array Int "+itemsSort+")", "(store "+fx.ditems()+" "+arr+" (select "+fx.ditems()+" (s.arr "+x+")))")
		fx.setHeap("G_dlen", "(Array Int Int)", "(store "+fx.dlen()+" "+arr+" (select "+fx.dlen()+" (s.arr "+x+")))")
		setRes(Val{S: "(mk-slice " + arr + " 0 (s.len " + x + ") (s.len " + x + "))"})
		return true
	case "bytes.NewReader":
		x := fx.term(args[0])
		r := fx.freshRef("reader")
		fx.setHeap("G_ritems", "(Array Int "+itemsSort+")", "(store "+fx.ritems()+" "+r+" (select "+fx.ditems()+" (s.arr "+x+")))")
		fx.setHeap("G_rlen", "(Array Int Int)", "(store "+fx.rlen()+" "+r+" (select "+fx.dlen()+" (s.arr "+x+")))")
		fx.setHeap("G_rpos", "(Array Int Int)", "(store "+fx.rpos()+" "+r+" 0)")
		setRes(Val{S: r})
		return true
	case "encoding/binary.Read":
		r := "(i.pay " + fx.term(args[0]) + ")"
		x := unwrapIfacePtr(c.Args[2])
		pt, ok := x.Type().Underlying().(*types.Pointer)
		if !ok {
			return false
		}
		pos := "(select " + fx.rpos() + " " + r + ")"
		item := fx.define("rditem", "Item", "(select (select "+fx.ritems()+" "+r+") "+pos+")")
		isKind, val, ok := itemMatch(pt.Elem(), item)
		if !ok {
			return false
		}
		okc := fx.define("rdok", "Bool", and("(< "+pos+" (select "+fx.rlen()+" "+r+"))", isKind))
		e := someErr()
		fx.assume("(= (= " + e.S + " (mk-iface 0 0)) " + okc + ")")
		// the destination receives the value of the item (arbitrary when the read failed)
		nv := fx.havoc("rdval", fx.sortOf(pt.Elem()))
		fx.assume(fx.typeInvariant(pt.Elem(), nv))
		fx.assume("(=> " + okc + " (= " + nv + " " + val + "))")
		fx.store(fx.placeOf(fx.val(x)), nv)
		fx.setHeap("G_rpos", "(Array Int Int)", "(store "+fx.rpos()+" "+r+" (+ "+pos+" "+ite(okc, "1", "0")+"))")
		setRes(e)
		return true
	case "(*bytes.Reader).Len", "invoke:.Len":
		// remaining bytes: at least the payload of the next item when that is a byte string
		var r string
		if name == "invoke:.Len" {
			r = "(i.pay " + fx.term(args[0]) + ")"
		} else {
			r = fx.term(args[0])
		}
		pos := "(select " + fx.rpos() + " " + r + ")"
		item := "(select (select " + fx.ritems() + " " + r + ") " + pos + ")"
		n := fx.havoc("rdremaining", "Int")
		fx.assume("(and (>= " + n + " 0) (<= " + n + " 4611686018427387904))")
		fx.assume("(=> (and (< " + pos + " (select " + fx.rlen() + " " + r + ")) ((_ is iBytes) " + item + ")) (>= " + n + " (slen (bytesval " + item + "))))")
		setRes(Val{T: types.Typ[types.Int], S: n})
		return true
	case "io.ReadFull":
		r := "(i.pay " + fx.term(args[0]) + ")"
		buf := fx.term(args[1])
		pos := "(select " + fx.rpos() + " " + r + ")"
		item := fx.define("rditem", "Item", "(select (select "+fx.ritems()+" "+r+") "+pos+")")
		// the payload item (an empty one for an empty buffer: the writer side always pairs a length
		// with a payload item, see the header comment)
		okc := fx.define("rdok", "Bool", and("(< "+pos+" (select "+fx.rlen()+" "+r+"))", "((_ is iBytes) "+item+")", "(= (slen (bytesval "+item+")) (s.len "+buf+"))"))
		e := someErr()
		fx.assume("(= (= " + e.S + " (mk-iface 0 0)) " + okc + ")")
		name, sort := fx.elemHeap(types.Typ[types.Byte])
		h := fx.heapArr(name, sort)
		na := fx.havoc("rdbytes", "(Array Int Int)")
		fx.assume("(=> " + okc + " (= (str_of_bytes " + na + " (s.off " + buf + ") (s.len " + buf + ")) (bytesval " + item + ")))")
		fx.setHeap(name, sort, "(store "+h+" (s.arr "+buf+") "+na+")")
		fx.setHeap("G_rpos", "(Array Int Int)", "(store "+fx.rpos()+" "+r+" (+ "+pos+" "+ite(okc, "1", "0")+"))")
		n := fx.havoc("rn", "Int")
		setRes(Val{Tup: []Val{{T: types.Typ[types.Int], S: n}, e}})
		_ = nilErr
		return true
	}
	return false
}
