package main

// C10 block state: RenderContext.currentBlock and RenderContext.blockLevel say which definition of
// which block is being rendered; parent() is resolved against them. The call-site contracts of
// Node.Render / EvaluateExpression state that a successful call leaves both as they were. That
// statement is discharged here for the whole package by induction over the call depth:
//
//   blockstate  every store to one of the two fields goes to a context the function created itself
//               (NewRenderContext / Clone result) or to a context it was given, and
//   restore     every function that stores to a context it was given has them back at their entry
//               values on every return without error (its callees do so by the same contract),
//
// so a function that does not store to the fields of an existing context cannot change them at all.
// The context life-cycle functions (list blockstate_lifecycle: they initialise or retire a
// context) are exempt.

import (
	"fmt"
	"go/types"
	"strings"

	"golang.org/x/tools/go/ssa"
)

func init() {
	families["C10"] = append(families["C10"], blockStateFamily)
}

var blockStateFields = map[string]bool{"currentBlock": true, "blockLevel": true}

func blockStateFamily(w *World, prop string) ([]*Obligation, []string) {
	var out []*Obligation
	lifecycle := map[string]bool{}
	for _, n := range w.Contracts.Lists["blockstate_lifecycle"] {
		lifecycle[n] = true
	}
	nfn, nsites := 0, 0
	var skipped []string
	for _, name := range sortedKeys(w.Funcs) {
		fn := w.Funcs[name]
		if len(fn.Blocks) == 0 {
			continue
		}
		writes := false
		for _, b := range fn.Blocks {
			for _, in := range b.Instrs {
				if st, ok := in.(*ssa.Store); ok {
					if fa, ok := st.Addr.(*ssa.FieldAddr); ok && isRenderContextPtr(fa.X.Type()) {
						s := fa.X.Type().Underlying().(*types.Pointer).Elem().Underlying().(*types.Struct)
						if blockStateFields[s.Field(fa.Field).Name()] {
							writes = true
						}
					}
				}
			}
		}
		if !writes {
			continue
		}
		if lifecycle[name] {
			skipped = append(skipped, name)
			continue
		}
		nfn++
		var ctxs []ssa.Value
		var ctxNames []string
		for _, p := range fn.Params {
			if isRenderContextPtr(p.Type()) {
				ctxs = append(ctxs, p)
				ctxNames = append(ctxNames, p.Name())
			}
		}
		for _, fv := range fn.FreeVars {
			if isRenderContextPtr(fv.Type()) {
				ctxs = append(ctxs, fv)
			}
		}
		ct := deriveContract(w.Contracts.ByName[name], name)
		res := fn.Signature.Results()
		returnsErr := res.Len() > 0 && res.At(res.Len()-1).Type().String() == "error"
		const mark = "block state restored: "
		for _, cn := range ctxNames {
			text := fmt.Sprintf("%s.currentBlock == old(%s.currentBlock) && %s.blockLevel == old(%s.blockLevel)", cn, cn, cn, cn)
			if returnsErr {
				text = "err == nil ==> " + text
			}
			a, err := parseCExpr(text)
			if err != nil {
				continue
			}
			ct.Ensures = append(ct.Ensures, &CExpr{Text: mark + text, Props: []string{"C10"}, ast: a})
		}
		fx := newFnExec(w, fn, ct)
		fx.onStore = func(fx *FnExec, in ssa.Instruction, pl *Place, v Val) {
			if _, ok := in.(*ssa.Store); !ok {
				return
			}
			if pl.Kind != PField || pl.Base != nil || pl.SName != "RenderContext" || !blockStateFields[pl.Struct.Field(pl.Field).Name()] {
				return
			}
			nsites++
			alts := []string{"(> " + pl.Ref + " " + fx.allocBase() + ")"}
			for _, c := range ctxs {
				if _, isParam := c.(*ssa.Parameter); isParam {
					alts = append(alts, eq(pl.Ref, fx.term(fx.val(c))))
				}
			}
			o := fx.oblige("blockstate", or(alts...), in, "field "+pl.Struct.Field(pl.Field).Name()+" is written only on a context this function created or was handed as a parameter (for which it restores the field)")
			o.Props = []string{"C10"}
		}
		obls, err := fx.Run()
		if err != nil {
			out = append(out, &Obligation{Name: name + "/blockstate#0", Kind: "blockstate", Func: name, Goal: "false", PC: "true", Props: []string{"C10"}, Comment: "translation failed: " + err.Error(), Custom: "(assert true)"})
			continue
		}
		for _, o := range obls {
			switch {
			case o.Kind == "blockstate":
				out = append(out, o)
			case o.Kind == "post" && strings.Contains(o.Comment, mark):
				o.Kind = "restore"
				o.Name = strings.Replace(o.Name, "/post#", "/restore#", 1)
				o.Props = []string{"C10"}
				out = append(out, o)
			}
		}
	}
	return out, []string{fmt.Sprintf("functions storing to currentBlock/blockLevel: %d (+ life-cycle functions exempt: %s); store sites: %d", nfn, strings.Join(skipped, ", "), nsites)}
}
