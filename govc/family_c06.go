package main

// C06: a sandboxed include never runs a forbidden filter or function.
//
// Two kinds of obligation, generated for every function of the package that has a *RenderContext
// in scope (parameter, receiver or captured variable), so that new call sites are covered as soon
// as they are written:
//
//   choke   every dynamic call of a FilterFunc/FunctionFunc value: the value was looked up in
//           Environment.filters/functions under key k, and on every path to the call
//           ctx.sandboxed ==> policy != nil && allowed(policy, k)      (policy uninterpreted)
//   prop    every call that passes a *RenderContext c (to any callee, including interface and
//           closure calls): ctx.sandboxed ==> c.sandboxed   (a derived context never drops the flag)
//   store   every store to the sandboxed field of a context that is not fresh keeps it on
//   include IncludeNode.Render with n.sandboxed renders with a sandboxed context

import (
	"fmt"
	"go/types"
	"strings"

	"golang.org/x/tools/go/ssa"
)

func init() {
	families["C06"] = append(families["C06"], sandboxFamily)
}

func isRenderContextPtr(t types.Type) bool {
	p, ok := t.Underlying().(*types.Pointer)
	if !ok {
		return false
	}
	return namedTypeName(p.Elem()) == "RenderContext"
}

// sandboxField returns the term of c.sandboxed in the current heap.
func (fx *FnExec) sandboxedOf(c string) string {
	t := fx.W.typeByName("RenderContext")
	st := t.Underlying().(*types.Struct)
	for i := 0; i < st.NumFields(); i++ {
		if st.Field(i).Name() == "sandboxed" {
			return fx.load(&Place{Kind: PField, Ref: c, Struct: st, Field: i, Elem: st.Field(i).Type(), SName: "RenderContext"})
		}
	}
	return "false"
}

func (fx *FnExec) policyOf(c string) string {
	t := fx.W.typeByName("RenderContext")
	st := t.Underlying().(*types.Struct)
	for i := 0; i < st.NumFields(); i++ {
		if st.Field(i).Name() == "env" {
			env := fx.load(&Place{Kind: PField, Ref: c, Struct: st, Field: i, Elem: st.Field(i).Type(), SName: "RenderContext"})
			et := fx.W.typeByName("Environment")
			est := et.Underlying().(*types.Struct)
			for j := 0; j < est.NumFields(); j++ {
				if est.Field(j).Name() == "securityPolicy" {
					return fx.load(&Place{Kind: PField, Ref: env, Struct: est, Field: j, Elem: est.Field(j).Type(), SName: "Environment"})
				}
			}
		}
	}
	return "nil-iface"
}

// lookupOrigin finds the map lookup that produced a func value: returns the map field name
// ("filters"/"functions") and the key value.
func lookupOrigin(v ssa.Value, depth int) (field string, key ssa.Value, ok bool) {
	if depth > 8 {
		return "", nil, false
	}
	switch x := v.(type) {
	case *ssa.Extract:
		return lookupOrigin(x.Tuple, depth+1)
	case *ssa.Lookup:
		// map value: load of a field
		if u, isLoad := x.X.(*ssa.UnOp); isLoad {
			if fa, isFA := u.X.(*ssa.FieldAddr); isFA {
				st := fa.X.Type().Underlying().(*types.Pointer).Elem().Underlying().(*types.Struct)
				return st.Field(fa.Field).Name(), x.Index, true
			}
		}
	case *ssa.Phi:
		// all incoming edges must come from the same lookup
		var f0 string
		var k0 ssa.Value
		for i, e := range x.Edges {
			f, k, ok := lookupOrigin(e, depth+1)
			if !ok {
				return "", nil, false
			}
			if i == 0 {
				f0, k0 = f, k
			} else if f != f0 || k != k0 {
				return "", nil, false
			}
		}
		return f0, k0, f0 != ""
	}
	return "", nil, false
}

// reachesChoke: functions from which a dynamic FilterFunc/FunctionFunc call is reachable.
func (w *World) reachesChoke() map[*ssa.Function]bool {
	reach := map[*ssa.Function]bool{}
	for _, f := range w.AllFuncs {
		for _, b := range f.Blocks {
			for _, in := range b.Instrs {
				if c, ok := in.(ssa.CallInstruction); ok {
					cc := c.Common()
					if !cc.IsInvoke() && cc.StaticCallee() == nil {
						if tn := namedTypeName(cc.Value.Type()); tn == "FilterFunc" || tn == "FunctionFunc" {
							reach[f] = true
						}
					}
				}
			}
		}
	}
	for changed := true; changed; {
		changed = false
		for _, f := range w.AllFuncs {
			if reach[f] {
				continue
			}
			for _, b := range f.Blocks {
				for _, in := range b.Instrs {
					c, ok := in.(ssa.CallInstruction)
					if !ok {
						continue
					}
					targets, _ := w.callTargets(c.Common())
					for _, t := range targets {
						if reach[t] {
							reach[f] = true
							changed = true
						}
					}
				}
			}
		}
	}
	return reach
}

func sandboxFamily(w *World, prop string) ([]*Obligation, []string) {
	reach := w.reachesChoke()
	var out []*Obligation
	var notes []string
	nfuncs, nchoke, nprop := 0, 0, 0
	exemptFns := map[string]bool{}
	for _, n := range expandFuncList(w, w.Contracts.Lists["sandbox_exempt"]) {
		exemptFns[n] = true
	}
	// the functions that start a render of their own: they build a new context that is not sandboxed
	entryFns := map[string]bool{}
	for _, n := range expandFuncList(w, w.Contracts.Lists["render_entries"]) {
		entryFns[n] = true
	}
	isEntryCall := func(cc *ssa.CallCommon) bool {
		f := cc.StaticCallee()
		return f != nil && f.Pkg == w.Pkg && entryFns[displayName(f)]
	}
	for _, name := range sortedKeys(w.Funcs) {
		fn := w.Funcs[name]
		if len(fn.Blocks) == 0 || exemptFns[name] {
			continue
		}
		// reference context: first *RenderContext among receiver/params, else a captured one
		var ctxVal ssa.Value
		for _, p := range fn.Params {
			if isRenderContextPtr(p.Type()) {
				ctxVal = p
				break
			}
		}
		if ctxVal == nil {
			for _, fv := range fn.FreeVars {
				if isRenderContextPtr(fv.Type()) {
					ctxVal = fv
					break
				}
			}
		}
		// does the function contain anything relevant?
		relevant := false
		for _, b := range fn.Blocks {
			for _, in := range b.Instrs {
				if c, ok := in.(ssa.CallInstruction); ok {
					cc := c.Common()
					if !cc.IsInvoke() && cc.StaticCallee() == nil {
						if tn := namedTypeName(cc.Value.Type()); tn == "FilterFunc" || tn == "FunctionFunc" {
							relevant = true
						}
					}
					if ctxVal != nil {
						for _, a := range cc.Args {
							if isRenderContextPtr(a.Type()) {
								relevant = true
							}
						}
						if isEntryCall(cc) {
							relevant = true
						}
					}
				}
				if st, ok := in.(*ssa.Store); ok {
					if fa, ok := st.Addr.(*ssa.FieldAddr); ok && isRenderContextPtr(fa.X.Type()) {
						s := fa.X.Type().Underlying().(*types.Pointer).Elem().Underlying().(*types.Struct)
						if s.Field(fa.Field).Name() == "sandboxed" {
							relevant = true
						}
					}
				}
			}
		}
		if !relevant {
			continue
		}
		nfuncs++
		base := w.Contracts.ByName[name]
		ct := deriveContract(base, name)
		fx := newFnExec(w, fn, ct)
		// rely: no function switches the flag of an existing context off (guaranteed by the sbx-store
		// obligations of every function)
		fx.rely = map[string]func(string, string) string{
			"H_RenderContext_sandboxed": func(before, after string) string {
				return "(forall ((qr Int)) (! (=> (select " + before + " qr) (select " + after + " qr)) :pattern ((select " + after + " qr))))"
			},
		}
		var sbx0 string // ctx.sandboxed at entry
		getCtx := func() string {
			if ctxVal == nil {
				return ""
			}
			return fx.term(fx.val(ctxVal))
		}
		entrySbx := func() string {
			if sbx0 == "" && ctxVal != nil {
				c := getCtx()
				fx.withHeap(fx.heap0, func() { sbx0 = fx.sandboxedOf(c) })
				sbx0 = fx.define("sbx_entry", "Bool", sbx0)
			}
			return sbx0
		}
		fx.onCall = func(fx *FnExec, call ssa.CallInstruction, args []Val, res *Val) {
			cc := call.Common()
			// choke point
			if !cc.IsInvoke() && cc.StaticCallee() == nil {
				tn := namedTypeName(cc.Value.Type())
				if tn == "FilterFunc" || tn == "FunctionFunc" {
					nchoke++
					if ctxVal == nil {
						o := fx.oblige("choke", "false", call, "a "+tn+" value is invoked where no render context (and hence no policy check) is in scope")
						o.Props = []string{"C06"}
						return
					}
					field, key, ok := lookupOrigin(cc.Value, 0)
					want := map[string]string{"FilterFunc": "filters", "FunctionFunc": "functions"}[tn]
					if !ok || field != want {
						o := fx.oblige("choke", "false", call, "invoked "+tn+" value does not come from a lookup in Environment."+want)
						o.Props = []string{"C06"}
						return
					}
					c := getCtx()
					pol := fx.policyOf(c)
					allowedFn := map[string]string{"FilterFunc": "allowedFilter", "FunctionFunc": "allowedFunction"}[tn]
					k := fx.term(fx.val(key))
					goal := implies(fx.sandboxedOf(c), and("(distinct "+pol+" nil-iface)", "("+allowedFn+" "+pol+" "+k+")"))
					o := fx.oblige("choke", goal, call, "inside a sandbox a "+tn+" is invoked only after the policy allowed its name")
					o.Props = []string{"C06"}
				}
			}
			// boundary: include ... sandboxed renders with a sandboxed context and needs a policy
			if name == "(*IncludeNode).Render" && cc.IsInvoke() && cc.Method.Name() == "Render" && len(cc.Args) == 2 {
				n := fx.term(fx.val(fn.Params[0]))
				st := fx.W.typeByName("IncludeNode").Underlying().(*types.Struct)
				for i := 0; i < st.NumFields(); i++ {
					if st.Field(i).Name() == "sandboxed" {
						var nsb string
						fx.withHeap(fx.heap0, func() {
							nsb = fx.load(&Place{Kind: PField, Ref: n, Struct: st, Field: i, Elem: st.Field(i).Type(), SName: "IncludeNode"})
						})
						at := fx.term(fx.val(cc.Args[1]))
						goal := implies(nsb, and(fx.sandboxedOf(at), "(distinct "+fx.policyOf(at)+" nil-iface)"))
						o := fx.oblige("sbx-include", goal, call, "include ... sandboxed renders the template in a sandboxed context with a policy")
						o.Props = []string{"C06"}
					}
				}
			}
			// propagation
			if ctxVal == nil {
				return
			}
			// a render of its own (Template.Render/RenderTo, Engine.Render/RenderTo, DebugRender) starts
			// with a context that is not sandboxed: a function that works for a render context does
			// not start one unless that context is known not to be sandboxed
			if isEntryCall(cc) {
				o := fx.oblige("sbx-entry", "(not "+entrySbx()+")", call, "a render of its own (a new context, not sandboxed) is started by "+calleeLabel(cc)+" only where the context at hand is not sandboxed")
				o.Props = []string{"C06"}
			}
			var passed []ssa.Value
			if cc.IsInvoke() {
				// receiver is not a context
			}
			for _, a := range cc.Args {
				if isRenderContextPtr(a.Type()) {
					passed = append(passed, a)
				}
			}
			// a callee from which no filter or function call is reachable cannot break the sandbox
			if targets, _ := fx.W.callTargets(cc); len(targets) > 0 {
				any := false
				for _, t := range targets {
					if t.Pkg != fx.W.Pkg || reach[t] {
						any = true
					}
				}
				if !any {
					return
				}
			}
			for _, a := range passed {
				if a == ctxVal {
					continue
				}
				nprop++
				at := fx.term(fx.val(a))
				goal := implies(entrySbx(), or("(= "+at+" 0)", fx.sandboxedOf(at)))
				o := fx.oblige("sbx-prop", goal, call, "a context derived inside a sandbox is itself sandboxed when it is handed to "+calleeLabel(cc))
				o.Props = []string{"C06"}
			}
		}
		fx.onStore = func(fx *FnExec, in ssa.Instruction, pl *Place, v Val) {
			if pl.Kind != PField || pl.Base != nil || pl.SName != "RenderContext" || pl.Struct.Field(pl.Field).Name() != "sandboxed" {
				return
			}
			// a store that could switch the flag off on an existing context
			cur := fx.sandboxedOf(pl.Ref)
			goal := or("(> "+pl.Ref+" "+fx.allocBase()+")", implies(cur, v.S))
			o := fx.oblige("sbx-store", goal, in, "the sandbox flag of an existing context is never switched off")
			o.Props = []string{"C06"}
		}
		_ = entrySbx
		obls, err := fx.Run()
		if err != nil {
			out = append(out, &Obligation{Name: name + "/sbx#0", Kind: "choke", Func: name, Goal: "false", PC: "true", Props: []string{"C06"},
				Comment: "translation failed: " + err.Error(), Custom: "(assert true)"})
			continue
		}
		for _, o := range obls {
			if o.Kind == "choke" || o.Kind == "sbx-prop" || o.Kind == "sbx-store" || o.Kind == "sbx-entry" || (o.Kind == "pre" && hasProp(o.Props, "C06")) {
				out = append(out, o)
			}
		}
	}
	notes = append(notes, fmt.Sprintf("functions with a render context and relevant sites: %d; dynamic filter/function calls: %d; context hand-overs: %d", nfuncs, nchoke, nprop))
	return out, notes
}

func calleeLabel(c *ssa.CallCommon) string {
	if f := c.StaticCallee(); f != nil {
		return calleeName(f)
	}
	if c.IsInvoke() {
		return namedTypeName(c.Value.Type()) + "." + c.Method.Name()
	}
	if n := namedTypeName(c.Value.Type()); n != "" {
		return n
	}
	return strings.TrimSpace("a func value")
}
