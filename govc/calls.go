package main

// Calls: builtins, contracts at call sites, havoc of unknown callees.

import (
	"fmt"
	"go/ast"
	"go/types"
	"sort"
	"strconv"
	"strings"

	"golang.org/x/tools/go/ssa"
)

func calleeName(f *ssa.Function) string {
	if f.Pkg != nil && f.Pkg.Pkg.Path() == "github.com/semihalev/twig" {
		return displayName(f)
	}
	return f.String()
}

func namedTypeName(t types.Type) string {
	if a, ok := t.(*types.Alias); ok {
		t = types.Unalias(a)
	}
	if n, ok := t.(*types.Named); ok {
		if n.Obj().Pkg() != nil && n.Obj().Pkg().Path() != "github.com/semihalev/twig" {
			return n.Obj().Pkg().Name() + "." + n.Obj().Name()
		}
		return n.Obj().Name()
	}
	return ""
}

func (fx *FnExec) contractForCall(c *ssa.CallCommon) *Contract {
	cf := fx.W.Contracts
	if cf == nil {
		return nil
	}
	if c.IsInvoke() {
		tn := namedTypeName(c.Value.Type())
		if tn == "" {
			return nil
		}
		return cf.ByName["iface "+tn+"."+c.Method.Name()]
	}
	if f := c.StaticCallee(); f != nil {
		name := calleeName(f)
		if ct := cf.ByName[name]; ct != nil {
			return ct
		}
		// bound method wrappers / thunks: contract of the underlying method
		return nil
	}
	if _, ok := c.Value.(*ssa.Builtin); ok {
		return nil
	}
	if tn := namedTypeName(c.Value.Type()); tn != "" {
		return cf.ByName["functype "+tn]
	}
	return nil
}

// formalNames returns the parameter names a contract may use for this call (receiver first).
func (fx *FnExec) formalNames(ct *Contract, c *ssa.CallCommon) []string {
	if len(ct.ParamNames) > 0 {
		return ct.ParamNames
	}
	var names []string
	if c.IsInvoke() {
		names = append(names, "recv")
		sig := c.Method.Type().(*types.Signature)
		for i := 0; i < sig.Params().Len(); i++ {
			names = append(names, sig.Params().At(i).Name())
		}
		return names
	}
	if f := c.StaticCallee(); f != nil && len(f.Params) > 0 {
		if f.Pkg == fx.W.Pkg {
			return contractParamNames(displayName(f), f)
		}
		for _, p := range f.Params {
			names = append(names, p.Name())
		}
		return names
	}
	if sig, ok := c.Value.Type().Underlying().(*types.Signature); ok {
		for i := 0; i < sig.Params().Len(); i++ {
			names = append(names, sig.Params().At(i).Name())
		}
	}
	return names
}

func (fx *FnExec) formalTypes(ct *Contract, c *ssa.CallCommon) map[string]types.Type {
	names := fx.formalNames(ct, c)
	out := map[string]types.Type{}
	var args []ssa.Value
	if c.IsInvoke() {
		args = append(args, c.Value)
	}
	args = append(args, c.Args...)
	for i, n := range names {
		if i < len(args) {
			out[n] = args[i].Type()
		}
	}
	return out
}

// modTarget: one location set named by a modifies clause.
type modTarget struct {
	heap string
	sort string
	ref  string // object whose entry is havocked ("" = whole heap)
}

func (fx *FnExec) typeOfCExpr(e ast.Expr, names map[string]types.Type) types.Type {
	switch x := e.(type) {
	case *ast.Ident:
		if t, ok := names[x.Name]; ok {
			return t
		}
		if obj := fx.W.Pkg.Pkg.Scope().Lookup(x.Name); obj != nil {
			if v, ok := obj.(*types.Var); ok {
				if _, isStruct := v.Type().Underlying().(*types.Struct); isStruct {
					return types.NewPointer(v.Type())
				}
				return v.Type()
			}
		}
	case *ast.ParenExpr:
		return fx.typeOfCExpr(x.X, names)
	case *ast.SelectorExpr:
		bt := fx.typeOfCExpr(x.X, names)
		if bt == nil {
			return nil
		}
		el, _ := derefType(bt)
		if st, ok := el.Underlying().(*types.Struct); ok {
			for i := 0; i < st.NumFields(); i++ {
				if st.Field(i).Name() == x.Sel.Name {
					return st.Field(i).Type()
				}
			}
		}
	case *ast.CallExpr:
		if id, ok := x.Fun.(*ast.Ident); ok && (id.Name == "elems" || id.Name == "entries") && len(x.Args) == 1 {
			return fx.typeOfCExpr(x.Args[0], names)
		}
	}
	return nil
}

// modifiesHeaps: names of the heaps a contract's modifies clause touches (type-level).
func (fx *FnExec) modifiesHeaps(ct *Contract, c *ssa.CallCommon) []string {
	names := fx.formalTypes(ct, c)
	var out []string
	for _, m := range ct.Modifies {
		out = append(out, fx.modHeapNames(m.ast, names)...)
	}
	return out
}

func (fx *FnExec) modHeapNames(e ast.Expr, names map[string]types.Type) []string {
	switch x := e.(type) {
	case *ast.SelectorExpr:
		bt := fx.typeOfCExpr(x.X, names)
		if bt == nil {
			return nil
		}
		el, _ := derefType(bt)
		if st, ok := el.Underlying().(*types.Struct); ok {
			for i := 0; i < st.NumFields(); i++ {
				if st.Field(i).Name() == x.Sel.Name {
					n, s := fx.fieldHeap(fx.W.structName(el), st, i)
					fx.W.heapSorts[n] = s
					return []string{n}
				}
			}
		}
	case *ast.CallExpr:
		id, _ := x.Fun.(*ast.Ident)
		if id == nil || len(x.Args) != 1 {
			return nil
		}
		t := fx.typeOfCExpr(x.Args[0], names)
		if t == nil {
			return nil
		}
		switch id.Name {
		case "stream":
			fx.witems()
			fx.wlen()
			return []string{"G_witems", "G_wlen"}
		case "reader":
			fx.rpos()
			return []string{"G_rpos"}
		case "elems":
			if st, ok := t.Underlying().(*types.Slice); ok {
				n, s := fx.elemHeap(st.Elem())
				fx.W.heapSorts[n] = s
				return []string{n}
			}
		case "entries":
			if mt, ok := t.Underlying().(*types.Map); ok {
				a, b, c := fx.W.mapHeapNames(mt)
				fx.mapHeaps(mt)
				return []string{a, b, c}
			}
		}
	}
	return nil
}

// applyModifies havocs exactly the locations named.
func (fx *FnExec) applyModifies(ct *Contract, env *evalEnv) error {
	// the locations a modifies clause names are those of the state before the call (that is how the
	// callee's body is checked against it): evaluate every target first, then havoc - otherwise
	// "modifies x.m, entries(x.m)" would havoc the entries of whatever x.m is afterwards
	pre := make([]cval, len(ct.Modifies))
	for i, m := range ct.Modifies {
		var e ast.Expr
		switch x := m.ast.(type) {
		case *ast.SelectorExpr:
			e = x.X
		case *ast.CallExpr:
			if len(x.Args) == 1 {
				e = x.Args[0]
			}
		}
		if e == nil {
			continue
		}
		v, err := fx.evalC(e, env)
		if err != nil {
			return err
		}
		pre[i] = v
	}
	for mi, m := range ct.Modifies {
		switch x := m.ast.(type) {
		case *ast.SelectorExpr:
			base := pre[mi]
			el, isPtr := derefType(base.T)
			st, ok := el.Underlying().(*types.Struct)
			if !ok || !isPtr {
				return fmt.Errorf("modifies %s: not a field of a pointer", m.Text)
			}
			done := false
			for i := 0; i < st.NumFields(); i++ {
				if st.Field(i).Name() == x.Sel.Name {
					name, sort := fx.fieldHeap(fx.W.structName(el), st, i)
					h := fx.heapArr(name, sort)
					nv := fx.havoc("mod_"+sanitize(x.Sel.Name), fx.sortOf(st.Field(i).Type()))
					fx.assume(fx.typeInvariant(st.Field(i).Type(), nv))
					fx.setHeap(name, sort, "(store "+h+" "+base.S+" "+nv+")")
					done = true
				}
			}
			if !done {
				return fmt.Errorf("modifies %s: no such field", m.Text)
			}
		case *ast.CallExpr:
			id, _ := x.Fun.(*ast.Ident)
			if id == nil || len(x.Args) != 1 {
				return fmt.Errorf("modifies %s: unsupported", m.Text)
			}
			v := pre[mi]
			switch id.Name {
			case "stream":
				ref := streamRef(v)
				fx.setHeap("G_witems", "(Array Int "+itemsSort+")", "(store "+fx.witems()+" "+ref+" "+fx.havoc("mod_items", itemsSort)+")")
				nl := fx.havoc("mod_wlen", "Int")
				fx.assume("(>= " + nl + " 0)")
				fx.setHeap("G_wlen", "(Array Int Int)", "(store "+fx.wlen()+" "+ref+" "+nl+")")
			case "reader":
				ref := streamRef(v)
				np := fx.havoc("mod_rpos", "Int")
				fx.setHeap("G_rpos", "(Array Int Int)", "(store "+fx.rpos()+" "+ref+" "+np+")")
			case "elems":
				st, ok := v.T.Underlying().(*types.Slice)
				if !ok {
					return fmt.Errorf("modifies %s: not a slice", m.Text)
				}
				name, sort := fx.elemHeap(st.Elem())
				h := fx.heapArr(name, sort)
				na := fx.havoc("mod_elems", "(Array Int "+fx.sortOf(st.Elem())+")")
				fx.setHeap(name, sort, "(store "+h+" (s.arr "+v.S+") "+na+")")
			case "entries":
				mt, ok := v.T.Underlying().(*types.Map)
				if !ok {
					return fmt.Errorf("modifies %s: not a map", m.Text)
				}
				dn, vn, ln := fx.W.mapHeapNames(mt)
				ks, vs := fx.sortOf(mt.Key()), fx.sortOf(mt.Elem())
				dom, val, l := fx.mapHeaps(mt)
				fx.setHeap(dn, "(Array Int (Array "+ks+" Bool))", "(store "+dom+" "+v.S+" "+fx.havoc("mod_dom", "(Array "+ks+" Bool)")+")")
				fx.setHeap(vn, "(Array Int (Array "+ks+" "+vs+"))", "(store "+val+" "+v.S+" "+fx.havoc("mod_val", "(Array "+ks+" "+vs+")")+")")
				nl := fx.havoc("mod_len", "Int")
				fx.assume("(>= " + nl + " 0)")
				fx.setHeap(ln, "(Array Int Int)", "(store "+l+" "+v.S+" "+nl+")")
			default:
				return fmt.Errorf("modifies %s: unsupported", m.Text)
			}
		default:
			return fmt.Errorf("modifies %s: unsupported form", m.Text)
		}
	}
	return nil
}

func (fx *FnExec) resultVal(t types.Type, prefix string) Val {
	if tup, ok := t.(*types.Tuple); ok {
		if tup.Len() == 0 {
			return Val{T: t}
		}
		var vs []Val
		for i := 0; i < tup.Len(); i++ {
			vs = append(vs, fx.resultVal(tup.At(i).Type(), fmt.Sprintf("%s_%d", prefix, i)))
		}
		return Val{T: t, Tup: vs}
	}
	n := fx.havoc(prefix, fx.sortOf(t))
	if inv := fx.typeInvariant(t, n); inv != "true" {
		fx.assumeGlobal(inv)
	}
	return Val{T: t, S: n}
}

func (fx *FnExec) execCall(in ssa.Instruction, c *ssa.CallCommon, res ssa.Value) {
	var args []Val
	if c.IsInvoke() {
		args = append(args, fx.val(c.Value))
	}
	for _, a := range c.Args {
		args = append(args, fx.val(a))
	}
	fx.execCallArgs(in, c, res, args)
}

func (fx *FnExec) execCallArgs(in ssa.Instruction, c *ssa.CallCommon, res ssa.Value, args []Val) {
	setRes := func(v Val) {
		if res != nil {
			v.T = res.Type()
			fx.regs[res] = v
		}
	}
	if b, ok := c.Value.(*ssa.Builtin); ok {
		fx.execBuiltin(in, b, c, args, setRes)
		return
	}
	if fx.streamCall(in, c, args, setRes) {
		return
	}
	fx.atCallAsserts(in, c, args)
	var rtype types.Type
	if res != nil {
		rtype = res.Type()
	} else {
		rtype = c.Signature().Results()
	}
	ct := fx.contractForCall(c)
	var result Val
	if r, ok := fx.tryInlineNew(in, c, ct, args, rtype); ok {
		result = r
	} else if ct != nil {
		result = fx.callWithContract(in, c, ct, args, rtype)
	} else {
		result = fx.callHavoc(in, c, args, rtype)
	}
	// interior pointers passed to the callee may have been written through
	for i, a := range args {
		if a.P != nil && a.S == "" && (a.P.Kind == PField || a.P.Kind == PElem) {
			_ = i
			fx.store(a.P, fx.loadedHavoc(a.P.Elem))
		}
	}
	if fx.onCall != nil {
		fx.onCall(fx, in.(ssa.CallInstruction), args, &result)
	}
	// an object invariant holds for ever for an object older than this activation (typeinv family:
	// nobody stores to a footprint field of an existing object; code outside the package cannot
	// name the unexported fields): it is restated for the parameters in the state after the call
	if fx.inlDepth == 0 {
		for _, p := range fx.Fn.Params {
			if v, ok := fx.regs[p]; ok && v.S != "" && fx.typeInvOf(p.Type()) != nil {
				fx.assumeTypeInv(p.Type(), v.S, fx.cur.heap)
			}
		}
	}
	setRes(result)
}

func (fx *FnExec) loadedHavoc(t types.Type) string {
	n := fx.havoc("wr", fx.sortOf(t))
	if inv := fx.typeInvariant(t, n); inv != "true" {
		fx.assume(inv)
	}
	return n
}

func (fx *FnExec) callHavoc(in ssa.Instruction, c *ssa.CallCommon, args []Val, rtype types.Type) Val {
	fx.frameCheckCall(in, c, nil, nil)
	mods, _ := fx.W.instrMods(fx, in)
	for _, m := range mods {
		fx.havocHeap(m)
	}
	for _, gname := range fx.W.callGhostHavoc(c, nil) {
		fx.havocGhost(gname)
	}
	name := "call"
	if f := c.StaticCallee(); f != nil {
		name = sanitize(f.Name())
		// a few std facts that are part of Go's documented behaviour
		full := f.String()
		r := fx.resultVal(rtype, "ret_"+name)
		switch full {
		case "errors.New", "fmt.Errorf":
			fx.assume("(distinct " + r.S + " nil-iface)")
		case "(*sync.Pool).Get":
			// typed by inference over New and all Put sites; the object handed out is owned by the
			// caller alone (pool ownership, DESIGN.md F5/F9): modelled as a fresh reference whose
			// fields are arbitrary.
			if pi := fx.W.poolOf(c.Args[0]); pi != nil && pi.elem != nil && pi.newFn != nil {
				fx.assume(fmt.Sprintf("(= (i.tag %s) %d)", r.S, fx.tagOf(pi.elem)))
				switch pi.elem.Underlying().(type) {
				case *types.Pointer, *types.Map:
					fx.adoptFresh("(i.pay " + r.S + ")")
					if mt, isMap := pi.elem.Underlying().(*types.Map); isMap && fx.W.Contracts != nil {
						for _, pe := range fx.W.Contracts.Lists["poolempty"] {
							if pe == pi.name() {
								// pool invariant (checked at every Put site under C01): the map is empty
								dom, _, l := fx.mapHeaps(mt)
								m := "(i.pay " + r.S + ")"
								fx.assume("(and (= (select " + dom + " " + m + ") ((as const (Array " + fx.sortOf(mt.Key()) + " Bool)) false)) (= (select " + l + " " + m + ") 0))")
							}
						}
					}
				case *types.Slice:
					// payload is boxed; freshness of the backing array
					u := fx.unbox(pi.elem, "(i.pay "+r.S+")")
					fx.assume(fx.typeInvariant(pi.elem, u))
					fx.adoptFresh("(s.arr " + u + ")")
				}
				// declared pool invariant (checked at every Put site and for New under C01)
				if pc := fx.W.Contracts.ByName["pool "+pi.name()]; pc != nil {
					xv := Val{T: pi.elem, S: fx.unbox(pi.elem, "(i.pay "+r.S+")")}
					env := &evalEnv{fx: fx, heap: fx.cur.heap, oldHeap: fx.cur.heap, names: map[string]Val{"x": xv}, gh: fx.cur.gh, oldGh: fx.cur.gh, adopt: true}
					for _, inv := range pc.Requires {
						if t, err := fx.evalC(inv.ast, env); err == nil {
							fx.assume(t.S)
						}
					}
				}
				fx.usedAssumption("sync.Pool.Get returns an object of the pool's element type owned exclusively by the caller (arbitrary field values)")
			}
		}
		return r
	}
	return fx.resultVal(rtype, "ret_"+name)
}

func (fx *FnExec) callWithContract(in ssa.Instruction, c *ssa.CallCommon, ct *Contract, args []Val, rtype types.Type) Val {
	names := map[string]Val{}
	fn := fx.formalNames(ct, c)
	for i, n := range fn {
		if i < len(args) {
			a := args[i]
			if a.S == "" {
				a.S = fx.term(a)
			}
			names[n] = a
		}
	}
	pre := copyHeap(fx.cur.heap)
	preGh := copyMap(fx.cur.gh)
	env := &evalEnv{fx: fx, heap: fx.cur.heap, oldHeap: pre, names: names, gh: fx.cur.gh, oldGh: preGh}
	for k, r := range ct.Requires {
		if r.Global {
			continue // an invariant of package-level state: kept by its writers, not owed by callers
		}
		t, err := fx.evalC(r.ast, env)
		if err != nil {
			fx.outside = append(fx.outside, fmt.Sprintf("call %s requires %q: %v", ct.Name, r.Text, err))
			continue
		}
		o := fx.oblige("pre", t.S, in, fmt.Sprintf("precondition #%d of %s: %s", k+1, ct.Name, r.Text))
		o.Props = r.Props
	}
	// effects
	fx.frameCheckCall(in, c, ct, env)
	if ct.HasModifies {
		if err := fx.applyModifies(ct, env); err != nil {
			fx.outside = append(fx.outside, fmt.Sprintf("call %s: %v", ct.Name, err))
		}
	} else {
		mods, _ := fx.W.instrMods(fx, in)
		for _, m := range mods {
			fx.havocHeap(m)
		}
	}
	result := fx.resultVal(rtype, "ret_"+sanitize(lastWord(ct.Name)))
	if ct.Function {
		if f := c.StaticCallee(); f != nil {
			result = fx.fnSpecResult(f, args, rtype)
		}
	}
	var rets []Val
	if result.Tup != nil {
		rets = result.Tup
	} else if result.S != "" {
		rets = []Val{result}
	}
	if ct.Fresh && len(rets) > 0 {
		fx.adoptFresh(rets[0].S)
	}
	env2 := &evalEnv{fx: fx, heap: fx.cur.heap, oldHeap: pre, names: names, rets: rets, gh: fx.cur.gh, oldGh: preGh}
	for _, e := range ct.Ensures {
		t, err := fx.evalC(e.ast, env2)
		if err != nil {
			fx.outside = append(fx.outside, fmt.Sprintf("call %s ensures %q: %v", ct.Name, e.Text, err))
			continue
		}
		fx.assume(t.S)
	}
	// ghost updates performed by the callee: declared ones below; a ghost the callee may assign
	// without declaring its new value is arbitrary afterwards
	for _, gname := range fx.W.callGhostHavoc(c, ct) {
		fx.havocGhost(gname)
	}
	for _, gname := range sortedKeys(ct.GhostSet) {
		g := fx.W.Contracts.ghost(gname)
		if g == nil {
			continue
		}
		t, err := fx.evalC(ct.GhostSet[gname].ast, env2)
		if err != nil {
			fx.outside = append(fx.outside, fmt.Sprintf("call %s ghostset %s: %v", ct.Name, gname, err))
			continue
		}
		fx.cur.gh[gname] = fx.define("gh_"+gname, g.Sort, t.S)
	}
	fx.usedContracts(ct)
	return result
}

func lastWord(s string) string {
	if i := strings.LastIndexAny(s, ". )"); i >= 0 {
		return s[i+1:]
	}
	return s
}

func (fx *FnExec) usedContracts(ct *Contract) {
	for _, n := range fx.notes {
		if n == "uses:"+ct.Name {
			return
		}
	}
	fx.notes = append(fx.notes, "uses:"+ct.Name)
}

// ---------------------------------------------------------------- builtins

func (fx *FnExec) execBuiltin(in ssa.Instruction, b *ssa.Builtin, c *ssa.CallCommon, args []Val, setRes func(Val)) {
	switch b.Name() {
	case "len":
		a := fx.term(args[0])
		switch t := c.Args[0].Type().Underlying().(type) {
		case *types.Slice:
			setRes(Val{S: "(s.len " + a + ")"})
		case *types.Basic:
			setRes(Val{S: "(slen " + a + ")"})
		case *types.Map:
			setRes(Val{S: fx.define("len", "Int", fx.mapLen(t, a))})
		case *types.Array:
			setRes(Val{S: fmt.Sprint(t.Len())})
		case *types.Pointer:
			setRes(Val{S: fmt.Sprint(t.Elem().Underlying().(*types.Array).Len())})
		default:
			r := fx.havoc("len", "Int")
			fx.assume("(>= " + r + " 0)")
			setRes(Val{S: r})
		}
	case "cap":
		a := fx.term(args[0])
		if _, ok := c.Args[0].Type().Underlying().(*types.Slice); ok {
			setRes(Val{S: "(s.cap " + a + ")"})
		} else {
			r := fx.havoc("cap", "Int")
			fx.assume("(>= " + r + " 0)")
			setRes(Val{S: r})
		}
	case "append":
		fx.execAppend(in, c, args, setRes)
	case "copy":
		dst, src := fx.term(args[0]), fx.term(args[1])
		var srcLen string
		if fx.sortOf(c.Args[1].Type()) == "Str" {
			srcLen = "(slen " + src + ")"
		} else {
			srcLen = "(s.len " + src + ")"
		}
		if fx.onStore != nil {
			st := c.Args[0].Type().Underlying().(*types.Slice)
			fx.onStore(fx, in, &Place{Kind: PElem, Arr: "(s.arr " + dst + ")", Idx: "0", Elem: st.Elem()}, Val{})
		}
		st := c.Args[0].Type().Underlying().(*types.Slice)
		name, sort := fx.elemHeap(st.Elem())
		fx.frameCheck(in, name, "(s.arr "+dst+")", "copy into slice")
		h := fx.heapArr(name, sort)
		na := fx.havoc("copied", "(Array Int "+fx.sortOf(st.Elem())+")")
		cn := fx.define("copyn", "Int", "(imin (s.len "+dst+") "+srcLen+")")
		if _, isSlice := c.Args[1].Type().Underlying().(*types.Slice); isSlice {
			// exact (memmove semantics: the source is read in the state before the copy)
			fx.assume(fmt.Sprintf("(forall ((k Int)) (= (select %s k) (ite (and (<= (s.off %s) k) (< k (+ (s.off %s) %s))) (select (select %s (s.arr %s)) (+ (s.off %s) (- k (s.off %s)))) (select (select %s (s.arr %s)) k))))",
				na, dst, dst, cn, h, src, src, dst, h, dst))
		} else {
			// bytes of a string: elements outside the copied range keep their values
			fx.assume(fmt.Sprintf("(forall ((k Int)) (=> (not (and (<= (s.off %s) k) (< k (+ (s.off %s) %s)))) (= (select %s k) (select (select %s (s.arr %s)) k))))",
				dst, dst, cn, na, h, dst))
		}
		fx.setHeap(name, sort, "(store "+h+" (s.arr "+dst+") "+na+")")
		setRes(Val{S: cn})
	case "delete":
		m, k := fx.term(args[0]), fx.term(args[1])
		mt := c.Args[0].Type().Underlying().(*types.Map)
		fx.hashableKey(in, mt, k)
		if fx.onStore != nil {
			fx.onStore(fx, in, &Place{Kind: PCell, Ref: m, Elem: mt}, Val{})
		}
		// delete on a nil map is a no-op
		fx.frameCheckMap(in, mt, m)
		fx.mapDelete(mt, m, k)
	case "clear":
		ms, _ := fx.W.instrMods(fx, in)
		for _, m := range ms {
			fx.havocHeap(m)
		}
	case "min", "max":
		f := "imin"
		if b.Name() == "max" {
			f = "imax"
		}
		if fx.sortOf(c.Args[0].Type()) == "Int" {
			t := fx.term(args[0])
			for _, a := range args[1:] {
				t = "(" + f + " " + t + " " + fx.term(a) + ")"
			}
			setRes(Val{S: t})
		} else {
			setRes(Val{S: fx.havoc("minmax", fx.sortOf(c.Args[0].Type()))})
		}
	case "ssa:wrapnilchk":
		setRes(args[0])
	case "StringData":
		// unsafe.StringData(s): pointer to byte 0 of s; only reads through it are modelled, each
		// with the obligation that the offset is inside the string
		setRes(Val{P: &Place{Kind: PStrByte, Ref: fx.term(args[0]), Idx: "0", Elem: types.Typ[types.Byte]}, S: fx.havoc("strdata", "Int")})
	case "Add":
		// unsafe.Add(p, n) on a string-data pointer
		if pl := args[0].P; pl != nil && pl.Kind == PStrByte {
			setRes(Val{P: &Place{Kind: PStrByte, Ref: pl.Ref, Idx: fx.define("stroff", "Int", "(+ "+pl.Idx+" "+fx.term(args[1])+")"), Elem: pl.Elem}, S: fx.havoc("strptr", "Int")})
		} else {
			if in2, ok := in.(ssa.Value); ok {
				setRes(Val{S: fx.havoc("bi", fx.sortOf(in2.Type()))})
			}
			fx.notes = append(fx.notes, "unsupported builtin Add on a pointer that is not string data")
		}
	case "recover":
		// The executions that are modelled are the ones in which nothing panics (every instruction that
		// can panic carries an obligation; callees are assumed not to panic beyond their stated
		// preconditions): in those, recover finds no panic in flight and answers nil.
		setRes(Val{S: "nil-iface"})
	case "print", "println", "panic":
		if in2, ok := in.(ssa.Value); ok {
			setRes(Val{S: fx.havoc("bi", fx.sortOf(in2.Type()))})
		}
	default:
		if in2, ok := in.(ssa.Value); ok {
			setRes(Val{S: fx.havoc("bi", fx.sortOf(in2.Type()))})
		}
		fx.notes = append(fx.notes, "unsupported builtin "+b.Name())
	}
}

func (fx *FnExec) execAppend(in ssa.Instruction, c *ssa.CallCommon, args []Val, setRes func(Val)) {
	s := fx.term(args[0])
	st := c.Args[0].Type().Underlying().(*types.Slice)
	es := fx.sortOf(st.Elem())
	name, sort := fx.elemHeap(st.Elem())
	// number of appended elements and their values when statically known (varargs array)
	var elems []string
	known := false
	var tlen string
	if sl, ok := c.Args[1].(*ssa.Slice); ok && sl.Low == nil && sl.High == nil {
		if al, ok := sl.X.(*ssa.Alloc); ok {
			if arr, ok := al.Type().Underlying().(*types.Pointer).Elem().Underlying().(*types.Array); ok && arr.Len() <= 8 {
				known = true
				pl := fx.placeOf(fx.val(al))
				for i := int64(0); i < arr.Len(); i++ {
					elems = append(elems, fx.load(&Place{Kind: PElem, Arr: pl.Arr, Idx: fmt.Sprint(i), Elem: arr.Elem()}))
				}
				tlen = fmt.Sprint(arr.Len())
			}
		}
	}
	t := fx.term(args[1])
	if !known {
		if fx.sortOf(c.Args[1].Type()) == "Str" {
			tlen = "(slen " + t + ")"
		} else {
			tlen = "(s.len " + t + ")"
		}
	}
	newLen := fx.define("applen", "Int", "(+ (s.len "+s+") "+tlen+")")
	fits := fx.define("appfits", "Bool", "(<= "+newLen+" (s.cap "+s+"))")
	nref := fx.freshRef("app")
	ncap := fx.havoc("appcap", "Int")
	fx.assumeGlobal("(and (>= " + ncap + " " + newLen + ") (<= " + ncap + " 4611686018427387904))")
	arr := fx.define("apparr", "Int", ite(fits, "(s.arr "+s+")", nref))
	h := fx.heapArr(name, sort)
	if fx.onStore != nil {
		// only the in-place branch writes to existing memory
		save := fx.cur.pc
		fx.cur.pc = and(save, fits, "(> "+tlen+" 0)")
		fx.onStore(fx, in, &Place{Kind: PElem, Arr: "(s.arr " + s + ")", Idx: "(+ (s.off " + s + ") (s.len " + s + "))", Elem: st.Elem()}, Val{})
		fx.cur.pc = save
	}
	{
		save := fx.cur.pc
		fx.cur.pc = and(save, fits, "(> "+tlen+" 0)")
		fx.frameCheck(in, name, "(s.arr "+s+")", "append in place")
		fx.cur.pc = save
	}
	var content string
	if known {
		content = "(select " + h + " (s.arr " + s + "))"
		for i, e := range elems {
			content = fmt.Sprintf("(store %s (+ (s.off %s) (s.len %s) %d) %s)", content, s, s, i, e)
		}
	} else {
		content = fx.havoc("appcontent", "(Array Int "+es+")")
		// when nothing is appended the content is unchanged
		fx.assumeGlobal("(=> (= " + tlen + " 0) (= " + content + " (select " + h + " (s.arr " + s + "))))")
		// the elements that were there stay: stated for a destination of statically known small
		// length (a slice literal, append([]T{x}, more...)), element by element
		if sl0, ok := c.Args[0].(*ssa.Slice); ok && sl0.Low == nil && sl0.High == nil {
			if al0, ok := sl0.X.(*ssa.Alloc); ok {
				if arr0, ok := al0.Type().Underlying().(*types.Pointer).Elem().Underlying().(*types.Array); ok && arr0.Len() <= 8 {
					for i := int64(0); i < arr0.Len(); i++ {
						idx := fmt.Sprintf("(+ (s.off %s) %d)", s, i)
						fx.assumeGlobal("(= (select " + content + " " + idx + ") (select (select " + h + " (s.arr " + s + ")) " + idx + "))")
					}
				}
			}
		}
	}
	fx.setHeap(name, sort, "(store "+h+" "+arr+" "+content+")")
	setRes(Val{S: fx.define("appres", "Slice", "(mk-slice "+arr+" (s.off "+s+") "+newLen+" "+ite(fits, "(s.cap "+s+")", ncap)+")")})
}

// ---------------------------------------------------------------- pure functions as spec functions

func fnSpecName(f *ssa.Function, k int) string {
	return fmt.Sprintf("fn_%s_%d", sanitize(f.Name()), k)
}

func (w *World) lookupFnSpec(name string) (string, int, *ssa.Function) {
	for _, ct := range w.Contracts.Order {
		if !ct.Function {
			continue
		}
		f := w.Funcs[ct.Name]
		if f == nil {
			// a std-library function under an assumed `function` contract: pkg.Func
			if i := strings.LastIndex(ct.Name, "."); i > 0 && !strings.Contains(ct.Name, "(") {
				for _, pk := range w.Prog.AllPackages() {
					if pk.Pkg.Path() == ct.Name[:i] || pk.Pkg.Name() == ct.Name[:i] {
						if fn := pk.Func(ct.Name[i+1:]); fn != nil {
							f = fn
						}
					}
				}
			}
		}
		if f == nil {
			continue
		}
		for k := 0; k < f.Signature.Results().Len(); k++ {
			if fnSpecName(f, k) == name {
				return name, k, f
			}
		}
	}
	return "", 0, nil
}

func (fx *FnExec) declareFnSpec(f *ssa.Function) {
	var as []string
	if len(f.Params) > 0 || f.Signature.Params().Len() == 0 && f.Signature.Recv() == nil {
		for _, p := range f.Params {
			as = append(as, fx.sortOf(p.Type()))
		}
	} else {
		// no body (std library): the signature gives the parameters
		if r := f.Signature.Recv(); r != nil {
			as = append(as, fx.sortOf(r.Type()))
		}
		for i := 0; i < f.Signature.Params().Len(); i++ {
			as = append(as, fx.sortOf(f.Signature.Params().At(i).Type()))
		}
	}
	for k := 0; k < f.Signature.Results().Len(); k++ {
		fx.declareFun(fnSpecName(f, k), as, fx.sortOf(f.Signature.Results().At(k).Type()))
	}
}

func (fx *FnExec) fnSpecResult(f *ssa.Function, args []Val, rtype types.Type) Val {
	fx.declareFnSpec(f)
	var as []string
	for _, a := range args {
		as = append(as, fx.term(a))
	}
	mk := func(k int, t types.Type) Val {
		n := fx.define("fnres", fx.sortOf(t), "("+fnSpecName(f, k)+" "+strings.Join(as, " ")+")")
		if inv := fx.typeInvariant(t, n); inv != "true" {
			fx.assume(inv)
		}
		return Val{T: t, S: n}
	}
	if tup, ok := rtype.(*types.Tuple); ok {
		var vs []Val
		for k := 0; k < tup.Len(); k++ {
			vs = append(vs, mk(k, tup.At(k).Type()))
		}
		return Val{T: rtype, Tup: vs}
	}
	return mk(0, rtype)
}

func (fx *FnExec) usedAssumption(a string) {
	for _, n := range fx.notes {
		if n == "assume:"+a {
			return
		}
	}
	fx.notes = append(fx.notes, "assume:"+a)
}

// ---------------------------------------------------------------- frame checking (F4)

// initFrame evaluates the modifies clause of the function under verification at entry.
func (fx *FnExec) initFrame() {
	if fx.C == nil || !fx.C.HasModifies || fx.C.Assumed {
		return
	}
	fx.frameOK = true
	env := &evalEnv{fx: fx, heap: fx.cur.heap, oldHeap: fx.cur.heap}
	for _, m := range fx.C.Modifies {
		ts, err := fx.modTargets(m, env)
		if err != nil {
			fx.outside = append(fx.outside, "modifies "+m.Text+": "+err.Error())
			continue
		}
		fx.frame = append(fx.frame, ts...)
	}
}

// modTargets resolves one modifies expression to (heap, object ref) pairs.
func (fx *FnExec) modTargets(m *CExpr, env *evalEnv) ([]modTarget, error) {
	switch x := m.ast.(type) {
	case *ast.SelectorExpr:
		base, err := fx.evalC(x.X, env)
		if err != nil {
			return nil, err
		}
		el, isPtr := derefType(base.T)
		st, ok := el.Underlying().(*types.Struct)
		if !ok || !isPtr {
			return nil, fmt.Errorf("not a field of a pointer")
		}
		for i := 0; i < st.NumFields(); i++ {
			if st.Field(i).Name() == x.Sel.Name {
				name, sort := fx.fieldHeap(fx.W.structName(el), st, i)
				return []modTarget{{heap: name, sort: sort, ref: base.S}}, nil
			}
		}
		return nil, fmt.Errorf("no such field")
	case *ast.CallExpr:
		id, _ := x.Fun.(*ast.Ident)
		if id == nil || len(x.Args) != 1 {
			return nil, fmt.Errorf("unsupported")
		}
		v, err := fx.evalC(x.Args[0], env)
		if err != nil {
			return nil, err
		}
		switch id.Name {
		case "stream":
			return []modTarget{{heap: "G_witems", ref: streamRef(v)}, {heap: "G_wlen", ref: streamRef(v)}}, nil
		case "reader":
			return []modTarget{{heap: "G_rpos", ref: streamRef(v)}}, nil
		case "elems":
			st, ok := v.T.Underlying().(*types.Slice)
			if !ok {
				return nil, fmt.Errorf("not a slice")
			}
			name, sort := fx.elemHeap(st.Elem())
			return []modTarget{{heap: name, sort: sort, ref: "(s.arr " + v.S + ")"}}, nil
		case "entries":
			mt, ok := v.T.Underlying().(*types.Map)
			if !ok {
				return nil, fmt.Errorf("not a map")
			}
			a, b, c := fx.W.mapHeapNames(mt)
			return []modTarget{{heap: a, ref: v.S}, {heap: b, ref: v.S}, {heap: c, ref: v.S}}, nil
		}
	}
	return nil, fmt.Errorf("unsupported form")
}

// frameCheck: a write to object `ref` in heap `heap` must be inside the declared frame or hit an
// object allocated by this activation.
func (fx *FnExec) frameCheck(in ssa.Instruction, heap, ref, what string) {
	if !fx.frameOK {
		return
	}
	alts := []string{"(> " + ref + " " + fx.allocBase() + ")"}
	for _, t := range fx.frame {
		if t.heap == heap {
			alts = append(alts, eq(ref, t.ref))
		}
	}
	o := fx.oblige("frame", or(alts...), in, "write ("+what+") to "+heap+" stays inside the modifies clause or hits a fresh object")
	o.Props = fx.C.Props
}

func (fx *FnExec) frameCheckPlace(in ssa.Instruction, pl *Place) {
	if !fx.frameOK {
		return
	}
	// root object of the place
	root := pl
	for root.Kind == PField && root.Base != nil {
		root = root.Base
	}
	switch root.Kind {
	case PField:
		name, _ := fx.fieldHeap(root.SName, root.Struct, root.Field)
		fx.frameCheck(in, name, root.Ref, "store to field "+root.Struct.Field(root.Field).Name())
	case PElem:
		name, _ := fx.elemHeap(root.Elem)
		fx.frameCheck(in, name, root.Arr, "store to element")
	case PCell:
		if st, ok := root.Elem.Underlying().(*types.Struct); ok && st.NumFields() > 0 {
			si := fx.W.structInfoOf(root.Elem)
			for i := 0; i < st.NumFields(); i++ {
				name, _ := fx.fieldHeap(si.name, st, i)
				fx.frameCheck(in, name, root.Ref, "store of whole struct")
			}
			return
		}
		name, _ := fx.cellHeap(root.Elem)
		fx.frameCheck(in, name, root.Ref, "store through pointer")
	case PArr:
		name, _ := fx.elemHeap(root.Elem.Underlying().(*types.Array).Elem())
		fx.frameCheck(in, name, root.Arr, "store of whole array")
	default:
		o := fx.oblige("frame", "false", in, "store through an untracked interior pointer")
		o.Props = fx.C.Props
	}
}

func (fx *FnExec) frameCheckMap(in ssa.Instruction, mt *types.Map, m string) {
	if !fx.frameOK {
		return
	}
	a, _, _ := fx.W.mapHeapNames(mt)
	fx.frameCheck(in, a, m, "map update/delete")
}

// frameCheckCall: the callee's effects must lie inside the caller's frame.
func (fx *FnExec) frameCheckCall(in ssa.Instruction, c *ssa.CallCommon, ct *Contract, env *evalEnv) {
	if !fx.frameOK {
		return
	}
	if ct != nil && ct.HasModifies {
		for _, m := range ct.Modifies {
			ts, err := fx.modTargets(m, env)
			if err != nil {
				fx.outside = append(fx.outside, "call "+ct.Name+" modifies "+m.Text+": "+err.Error())
				continue
			}
			for _, t := range ts {
				if strings.HasPrefix(t.heap, "MV_") || strings.HasPrefix(t.heap, "ML_") {
					continue // checked once through the MD_ heap
				}
				fx.frameCheck(in, t.heap, t.ref, "effect of callee "+ct.Name)
			}
		}
		return
	}
	// callee without a modifies clause: every heap it may write (outside its own fresh objects)
	// must be covered — by object identity this cannot be established, so only an empty
	// summary passes
	mods, _ := fx.W.instrMods(fx, in)
	var direct = map[string]bool{}
	fx.W.directMods(in, true, direct)
	fx.W.builtinMods(c, true, direct)
	for _, h := range mods {
		if direct[h] {
			continue // the instruction's own writes are checked at the store itself
		}
		o := fx.oblige("frame", "false", in, "callee without modifies clause may write "+h)
		o.Props = fx.C.Props
	}
}

// streamRef: the object identity of a writer/reader given as pointer or as interface value.
func streamRef(v cval) string {
	if v.Sort == "Iface" {
		return "(i.pay " + v.S + ")"
	}
	return v.S
}

// atCallAsserts: assertions the contract of the function under verification attaches to calls of
// a given callee (arguments a0, a1, ... with the receiver first).
func (fx *FnExec) atCallAsserts(in ssa.Instruction, c *ssa.CallCommon, args []Val) {
	if fx.C == nil || len(fx.C.AtCall) == 0 {
		return
	}
	name := ""
	if f := c.StaticCallee(); f != nil {
		name = calleeName(f)
	} else if c.IsInvoke() {
		name = namedTypeName(c.Value.Type()) + "." + c.Method.Name()
	} else if sig, ok := c.Value.Type().Underlying().(*types.Signature); ok {
		// call of a function value: named by its parameter types, dyn(T1,T2)
		var ps []string
		for i := 0; i < sig.Params().Len(); i++ {
			ps = append(ps, types.TypeString(sig.Params().At(i).Type(), func(p *types.Package) string {
				if p == fx.W.Pkg.Pkg {
					return ""
				}
				return p.Name()
			}))
		}
		name = "dyn(" + strings.Join(ps, ",") + ")"
	}
	for k, ac := range fx.C.AtCall {
		callee, ord := ac.Callee, 0
		if i := strings.LastIndex(callee, "#"); i > 0 {
			// NAME#k: only the k-th call of NAME in source order
			if n, err := strconv.Atoi(callee[i+1:]); err == nil {
				callee, ord = callee[:i], n
			}
		}
		if callee != name {
			continue
		}
		if ord > 0 && fx.callOrdinal(in, name) != ord {
			continue
		}
		if fx.atcallHit == nil {
			fx.atcallHit = map[int]bool{}
		}
		fx.atcallHit[k] = true
		env := &evalEnv{fx: fx, heap: fx.cur.heap, oldHeap: fx.heap0, bound: map[string]cval{}, at: in.Block()}
		for i, a := range args {
			if a.S == "" {
				a.S = fx.term(a)
			}
			env.bound[fmt.Sprintf("a%d", i)] = fx.cvalOf(a)
		}
		// loop variables of the innermost enclosing loop are visible
		if b := in.Block(); b != nil {
			var inner *loopInfo
			for _, li := range fx.loopHead {
				if li.body[b.Index] && (inner == nil || len(li.body) < len(inner.body)) {
					inner = li
				}
			}
			if inner != nil {
				env.loop = inner.head
			}
		}
		t, err := fx.evalContract(ac.Expr, env)
		if err != nil {
			fx.outside = append(fx.outside, fmt.Sprintf("atcall %s: %v", ac.Callee, err))
			continue
		}
		fx.noAssumeNext = ac.NoAssume
		o := fx.oblige("atcall", t, in, fmt.Sprintf("at the call of %s (#%d): %s", ac.Callee, k+1, ac.Expr.Text))
		fx.noAssumeNext = false
		o.Props = ac.Expr.Props
	}
}

// callSiteName: the name under which atcall clauses address a call.
func (fx *FnExec) callSiteName(c *ssa.CallCommon) string {
	if f := c.StaticCallee(); f != nil {
		return calleeName(f)
	}
	if c.IsInvoke() {
		return namedTypeName(c.Value.Type()) + "." + c.Method.Name()
	}
	return ""
}

// callOrdinal: 1-based position of the call among the calls of the same callee in this function,
// in source order.
func (fx *FnExec) callOrdinal(in ssa.Instruction, name string) int {
	if fx.callOrd == nil {
		fx.callOrd = map[ssa.Instruction]int{}
		by := map[string][]ssa.Instruction{}
		for _, b := range fx.Fn.Blocks {
			for _, i2 := range b.Instrs {
				var c *ssa.CallCommon
				switch x := i2.(type) {
				case *ssa.Call:
					c = x.Common()
				case *ssa.Defer:
					c = x.Common()
				case *ssa.Go:
					c = x.Common()
				}
				if c == nil {
					continue
				}
				if n := fx.callSiteName(c); n != "" {
					by[n] = append(by[n], i2)
				}
			}
		}
		for _, list := range by {
			sort.SliceStable(list, func(i, j int) bool { return list[i].Pos() < list[j].Pos() })
			for i, i2 := range list {
				fx.callOrd[i2] = i + 1
			}
		}
	}
	return fx.callOrd[in]
}

// havocGhost makes a ghost variable arbitrary (only if the function has touched or will touch it:
// ghosts are declared lazily).
func (fx *FnExec) havocGhost(gname string) {
	g := fx.W.Contracts.ghost(gname)
	if g == nil {
		return
	}
	fx.ghostVal(fx.cur.gh, gname) // make sure the entry value exists before it is overwritten
	fx.cur.gh[gname] = fx.havoc("gh_"+gname+"_hv", g.Sort)
}
