package main

// C11/C12 frame: a function that is handed render contexts writes engine state only of those
// contexts (their fields and their variable/block/macro maps) or of objects it created itself —
// never of another existing context (in particular never through ctx.parent). This is the frame
// that the call-site contracts of Node.Render / EvaluateExpression / ApplyFilter rely on.

import (
	"fmt"
	"go/types"

	"golang.org/x/tools/go/ssa"
)

func init() {
	families["C11"] = append(families["C11"], ctxFrameFamily)
}

func ctxFrameFamily(w *World, prop string) ([]*Obligation, []string) {
	var out []*Obligation
	nfn, nsites := 0, 0
	for _, name := range sortedKeys(w.Funcs) {
		fn := w.Funcs[name]
		if len(fn.Blocks) == 0 {
			continue
		}
		// contexts in scope: parameters and captured variables
		var ctxs []ssa.Value
		for _, p := range fn.Params {
			if isRenderContextPtr(p.Type()) {
				ctxs = append(ctxs, p)
			}
		}
		for _, fv := range fn.FreeVars {
			if isRenderContextPtr(fv.Type()) {
				ctxs = append(ctxs, fv)
			}
		}
		// relevant: writes a RenderContext field or one of its maps
		relevant := false
		for _, b := range fn.Blocks {
			for _, in := range b.Instrs {
				switch x := in.(type) {
				case *ssa.Store:
					if fa, ok := x.Addr.(*ssa.FieldAddr); ok && isRenderContextPtr(fa.X.Type()) {
						relevant = true
					}
				case *ssa.MapUpdate:
					if fromOwnedField(x.Map) {
						relevant = true
					}
				case *ssa.Call:
					if b, ok := x.Call.Value.(*ssa.Builtin); ok && b.Name() == "delete" && fromOwnedField(x.Call.Args[0]) {
						relevant = true
					}
				}
			}
		}
		if !relevant || name == "NewRenderContext" {
			continue
		}
		nfn++
		fx := newFnExec(w, fn, deriveContract(w.Contracts.ByName[name], name))
		own := func(fx *FnExec, ref string) string {
			alts := []string{"(> " + ref + " " + fx.allocBase() + ")"}
			for _, c := range ctxs {
				alts = append(alts, eq(ref, fx.term(fx.val(c))))
			}
			return or(alts...)
		}
		ownerOfMap := func(fx *FnExec, m ssa.Value) (string, bool) {
			u, ok := m.(*ssa.UnOp)
			if !ok {
				return "", false
			}
			fa, ok := u.X.(*ssa.FieldAddr)
			if !ok || !isRenderContextPtr(fa.X.Type()) {
				return "", false
			}
			return fx.term(fx.val(fa.X)), true
		}
		fx.onStore = func(fx *FnExec, in ssa.Instruction, pl *Place, v Val) {
			switch x := in.(type) {
			case *ssa.Store:
				if pl.Kind == PField && pl.Base == nil && pl.SName == "RenderContext" {
					nsites++
					o := fx.oblige("ctxframe", own(fx, pl.Ref), in, "field "+pl.Struct.Field(pl.Field).Name()+" is written only on a context this function was given or created")
					o.Props = []string{"C11"}
				}
			case *ssa.MapUpdate:
				if owner, ok := ownerOfMap(fx, x.Map); ok {
					nsites++
					o := fx.oblige("ctxframe", own(fx, owner), in, "a context's map is updated only on a context this function was given or created")
					o.Props = []string{"C11"}
				}
			default:
				if c, ok := in.(*ssa.Call); ok {
					if b, isB := c.Call.Value.(*ssa.Builtin); isB && b.Name() == "delete" {
						if owner, ok := ownerOfMap(fx, c.Call.Args[0]); ok {
							nsites++
							o := fx.oblige("ctxframe", own(fx, owner), in, "a context's map is updated only on a context this function was given or created")
							o.Props = []string{"C11"}
						}
					}
				}
			}
		}
		obls, err := fx.Run()
		if err != nil {
			out = append(out, &Obligation{Name: name + "/ctxframe#0", Kind: "ctxframe", Func: name, Goal: "false", PC: "true", Props: []string{"C11"}, Comment: "translation failed: " + err.Error(), Custom: "(assert true)"})
			continue
		}
		for _, o := range obls {
			if o.Kind == "ctxframe" {
				out = append(out, o)
			}
		}
	}
	_ = types.Typ
	return out, []string{fmt.Sprintf("functions writing context state: %d; write sites: %d", nfn, nsites)}
}
