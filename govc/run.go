package main

// Instruction-level symbolic execution.

import (
	"fmt"
	"go/constant"
	"go/token"
	"go/types"
	"strings"

	"golang.org/x/tools/go/ssa"
)

func newFnExec(w *World, fn *ssa.Function, c *Contract) *FnExec {
	fx := &FnExec{W: w, Fn: fn, C: c, declared: map[string]bool{}, regs: map[ssa.Value]Val{},
		bs: map[*ssa.BasicBlock]*blockState{}, edgeCond: map[[2]int]string{}, kindOrd: map[string]int{},
		heap0: heapState{}, params: map[string]Val{}, strConst: map[string]string{}, entryGh: map[string]string{}}
	if c != nil {
		fx.checked = c.ArithChecked
		fx.instantiate = c.Flags["instantiate"] != ""
		// (the flag is a property of the function: it holds for its impl contract too)
		if w.Contracts != nil {
			for _, k := range []string{displayName(fn), "impl " + displayName(fn)} {
				if o := w.Contracts.ByName[k]; o != nil && o.Flags["instantiate"] != "" {
					fx.instantiate = true
				}
			}
		}
	}
	return fx
}

func copyHeap(h heapState) heapState {
	n := make(heapState, len(h))
	for k, v := range h {
		n[k] = v
	}
	return n
}

func copyMap(h map[string]string) map[string]string {
	n := make(map[string]string, len(h))
	for k, v := range h {
		n[k] = v
	}
	return n
}

// Run executes the function and returns the obligations.
func (fx *FnExec) Run() (obls []*Obligation, err error) {
	defer func() {
		if r := recover(); r != nil {
			err = fmt.Errorf("govc internal error in %s: %v", fx.Fn, r)
			if debugPanic {
				panic(r)
			}
		}
	}()
	fn := fx.Fn
	if len(fn.Blocks) == 0 {
		return nil, fmt.Errorf("no body")
	}
	order := fx.prepareCFG()
	// a loop clause that names a loop the function does not have would be dropped silently
	if fx.C != nil {
		for k, invs := range fx.C.LoopInv {
			written := false // clauses added by a family for "every loop" carry no source line
			for _, e := range invs {
				if e.Line > 0 {
					written = true
				}
			}
			if k > len(fx.loopHead) && written {
				fx.outside = append(fx.outside, fmt.Sprintf("contract has invariants for loop %d but the function has %d loop(s): the clause would not be checked", k, len(fx.loopHead)))
			}
		}
		for k := range fx.C.LoopEntry {
			if k > len(fx.loopHead) {
				fx.outside = append(fx.outside, fmt.Sprintf("contract has entry clauses for loop %d but the function has %d loop(s): the clause would not be checked", k, len(fx.loopHead)))
			}
		}
		for k := range fx.C.LoopStep {
			if k > len(fx.loopHead) {
				fx.outside = append(fx.outside, fmt.Sprintf("contract has step clauses for loop %d but the function has %d loop(s): the clause would not be checked", k, len(fx.loopHead)))
			}
		}
		for k := range fx.C.LoopDec {
			if k > len(fx.loopHead) {
				fx.outside = append(fx.outside, fmt.Sprintf("contract has a decreases clause for loop %d but the function has %d loop(s)", k, len(fx.loopHead)))
			}
		}
	}
	entry := &blockState{pc: "true", heap: heapState{}, gh: map[string]string{}}
	fx.cur = entry
	fx.curBlock = fn.Blocks[0]
	// parameters
	cpn := contractParamNames(displayName(fn), fn)
	for i, p := range fn.Params {
		v := Val{T: p.Type(), S: fx.havoc("p_"+sanitize(p.Name()), fx.sortOf(p.Type()))}
		fx.assumeGlobal(fx.typeInvariant(p.Type(), v.S))
		fx.assumeGlobal(fx.refInv(p.Type(), v.S))
		fx.regs[p] = v
		fx.params[p.Name()] = v
		if cpn[i] != p.Name() {
			// the parameter was renamed since the contracts were written: both names mean it
			fx.params[cpn[i]] = v
			fx.notes = append(fx.notes, "renamed parameter:"+cpn[i]+"->"+p.Name())
		}
	}
	// default: receiver and pointer parameters are non-nil unless the contract says nilable
	for i, p := range fn.Params {
		if _, ok := p.Type().Underlying().(*types.Pointer); ok {
			if fx.C != nil && (fx.C.Nilable[p.Name()] || fx.C.Nilable[cpn[i]]) {
				continue
			}
			if i == 0 && fn.Signature.Recv() != nil || (fx.C != nil && (fx.C.NonNil[p.Name()] || fx.C.NonNil[cpn[i]])) {
				fx.assumeGlobal("(> " + fx.regs[p].S + " 0)")
			}
		}
	}
	// object invariants of the parameters (objects that existed before the call)
	for _, p := range fn.Params {
		fx.assumeTypeInv(p.Type(), fx.regs[p].S, entry.heap)
	}
	// ghost variables are declared lazily, on first use (ghostEntry), so that functions that never
	// mention a ghost do not drag its sort and axioms into their queries
	fx.bs[fn.Blocks[0]] = entry
	if fx.onEntry != nil {
		fx.onEntry(fx)
	}
	// preconditions
	if fx.C != nil {
		for _, r := range fx.C.Requires {
			t, e := fx.evalContract(r, &evalEnv{fx: fx, heap: entry.heap, oldHeap: entry.heap})
			if e != nil {
				return nil, fmt.Errorf("requires %q: %v", r.Text, e)
			}
			fx.assumeGlobal(t)
		}
	}
	fx.heap0 = copyHeap(entry.heap)
	fx.initFrame()
	entry.done = false

	for _, b := range order {
		fx.execBlock(b)
	}
	fx.nameObligations()
	// an atcall clause whose callee is never called here asserts nothing: report it
	if fx.C != nil {
		for k, ac := range fx.C.AtCall {
			if !fx.atcallHit[k] {
				fx.outside = append(fx.outside, fmt.Sprintf("atcall %s: the function has no call of %s, the clause %q would not be checked", ac.Callee, ac.Callee, truncate(ac.Expr.Text, 60)))
			}
		}
	}
	return fx.obls, nil
}

var debugPanic = false

// enterBlock computes the state at block entry from its predecessors.
func (fx *FnExec) enterBlock(b *ssa.BasicBlock) *blockState {
	if b.Index == 0 {
		return fx.bs[b]
	}
	type inc struct {
		pred *ssa.BasicBlock
		cond string
		st   *blockState
	}
	var ins []inc
	for _, p := range b.Preds {
		if fx.backEdge[[2]int{p.Index, b.Index}] {
			continue
		}
		st := fx.bs[p]
		if st == nil || !st.done {
			continue // unreachable predecessor
		}
		c := fx.edgeCond[[2]int{p.Index, b.Index}]
		if c == "" || c == "false" {
			continue
		}
		ins = append(ins, inc{p, c, st})
	}
	st := &blockState{heap: heapState{}, gh: map[string]string{}}
	if len(ins) == 0 {
		st.pc = "false"
		fx.bs[b] = st
		return st
	}
	var pcs []string
	for _, in := range ins {
		pcs = append(pcs, in.cond)
	}
	pcName := fmt.Sprintf("%spc_b%d", fx.namePrefix, b.Index)
	fx.emit("(define-fun %s () Bool %s)", pcName, or(pcs...))
	st.pc = pcName
	// merge heaps
	names := map[string]bool{}
	for _, in := range ins {
		for k := range in.st.heap {
			names[k] = true
		}
	}
	for _, k := range sortedKeys(names) {
		sort := fx.W.heapSorts[k]
		var term string
		for i := len(ins) - 1; i >= 0; i-- {
			v, ok := ins[i].st.heap[k]
			if !ok {
				v = k + "_0"
				if !fx.declared[v] {
					fx.declared[v] = true
					fx.emit("(declare-const %s %s)", v, sort)
				}
				if _, ok := fx.heap0[k]; !ok {
					fx.heap0[k] = v
				}
			}
			if term == "" {
				term = v
			} else {
				term = ite(ins[i].cond, v, term)
			}
		}
		if strings.HasPrefix(term, "(ite") {
			n := fx.freshName(k + "_m")
			fx.emit("(define-fun %s () %s %s)", n, sort, term)
			term = n
		}
		st.heap[k] = term
	}
	// merge ghosts
	gnames := map[string]bool{}
	for _, in := range ins {
		for k := range in.st.gh {
			gnames[k] = true
		}
	}
	for _, k := range sortedKeys(gnames) {
		var term string
		for i := len(ins) - 1; i >= 0; i-- {
			v := ins[i].st.gh[k]
			if v == "" && k == "$acnt" {
				v = "0"
			}
			if v == "" {
				v = fx.ghostEntry(k)
			}
			if term == "" {
				term = v
			} else {
				term = ite(ins[i].cond, v, term)
			}
		}
		if g := fx.W.Contracts.ghost(k); g != nil && strings.HasPrefix(term, "(ite") {
			n := fx.freshName("gh_" + k + "_m")
			fx.emit("(define-fun %s () %s %s)", n, g.Sort, term)
			term = n
		}
		if k == "$acnt" && strings.HasPrefix(term, "(ite") {
			n := fx.freshName("acnt_m")
			fx.emit("(define-fun %s () Int %s)", n, term)
			term = n
		}
		if k == "$lk" && strings.HasPrefix(term, "(ite") {
			n := fx.freshName("lk_m")
			fx.emit("(define-fun %s () (Array Int Int) %s)", n, term)
			term = n
		}
		st.gh[k] = term
	}
	fx.bs[b] = st
	// phis
	fx.cur = st
	for _, in := range b.Instrs {
		phi, ok := in.(*ssa.Phi)
		if !ok {
			break
		}
		if fx.loopHead[b.Index] != nil {
			continue // handled by loop logic
		}
		var term string
		var place *Place
		samePlace := true
		for i := len(ins) - 1; i >= 0; i-- {
			// find edge index of pred
			var ev ssa.Value
			for j, p := range b.Preds {
				if p == ins[i].pred {
					ev = phi.Edges[j]
				}
			}
			v := fx.valIn(ev, ins[i].st)
			if v.P != nil && (place == nil || place == v.P) && v.S == "" {
				place = v.P
			} else {
				samePlace = false
			}
			t := fx.termIn(v, ins[i].st)
			if term == "" {
				term = t
			} else {
				term = ite(ins[i].cond, t, term)
			}
		}
		if place != nil && samePlace {
			fx.regs[phi] = Val{T: phi.Type(), P: place}
			continue
		}
		n := fx.define(regName(phi), fx.sortOf(phi.Type()), term)
		fx.regs[phi] = Val{T: phi.Type(), S: n}
	}
	return st
}

func regName(v ssa.Value) string { return "r_" + sanitize(v.Name()) }

// valIn / termIn evaluate a value in the context of a predecessor state (for constants that need
// declarations the current emit stream is fine since declarations are global).
func (fx *FnExec) valIn(v ssa.Value, st *blockState) Val {
	save := fx.cur
	fx.cur = st
	r := fx.val(v)
	fx.cur = save
	return r
}

func (fx *FnExec) termIn(v Val, st *blockState) string {
	save := fx.cur
	fx.cur = st
	r := fx.term(v)
	fx.cur = save
	return r
}

func (fx *FnExec) execBlock(b *ssa.BasicBlock) {
	st := fx.enterBlock(b)
	fx.cur = st
	fx.curBlock = b
	if st.pc == "false" {
		st.done = false
		return
	}
	if li := fx.loopHead[b.Index]; li != nil {
		fx.enterLoop(b, li, st)
	}
	for _, in := range b.Instrs {
		if _, ok := in.(*ssa.Phi); ok {
			continue
		}
		fx.execInstr(in)
	}
	st.done = true
}

// ---------------------------------------------------------------- loops

// clearIdiom recognises `for k := range m { delete(m, k) }` (the loop empties m and does nothing
// else); returns the map value.
func (fx *FnExec) clearIdiom(li *loopInfo) ssa.Value {
	var rng *ssa.Range
	var del *ssa.Call
	for _, b := range fx.Fn.Blocks {
		if !li.body[b.Index] {
			continue
		}
		for _, in := range b.Instrs {
			switch x := in.(type) {
			case *ssa.Next:
				r, ok := x.Iter.(*ssa.Range)
				if !ok || x.IsString || rng != nil && rng != r {
					return nil
				}
				rng = r
			case *ssa.Extract, *ssa.If, *ssa.Jump, *ssa.DebugRef, *ssa.Phi, *ssa.FieldAddr:
			case *ssa.UnOp:
				if x.Op != token.MUL {
					return nil
				}
			case *ssa.Call:
				bi, ok := x.Call.Value.(*ssa.Builtin)
				if !ok || bi.Name() != "delete" || del != nil {
					return nil
				}
				del = x
			default:
				return nil
			}
		}
	}
	if rng == nil || del == nil || !sameMapExpr(del.Call.Args[0], rng.X) {
		return nil
	}
	// the deleted key is the iteration key
	ex, ok := del.Call.Args[1].(*ssa.Extract)
	if !ok || ex.Index != 1 {
		return nil
	}
	if nx, ok := ex.Tuple.(*ssa.Next); !ok || nx.Iter != rng {
		return nil
	}
	if _, isMap := rng.X.Type().Underlying().(*types.Map); !isMap {
		return nil
	}
	return rng.X
}

// copyIdiom recognises `for k, v := range src { dst[k] = v }` (nothing else in the body); returns
// (src, dst).
func (fx *FnExec) copyIdiom(li *loopInfo) (ssa.Value, ssa.Value) {
	var rng *ssa.Range
	var upd *ssa.MapUpdate
	for _, b := range fx.Fn.Blocks {
		if !li.body[b.Index] {
			continue
		}
		for _, in := range b.Instrs {
			switch x := in.(type) {
			case *ssa.Next:
				r, ok := x.Iter.(*ssa.Range)
				if !ok || x.IsString || rng != nil && rng != r {
					return nil, nil
				}
				rng = r
			case *ssa.Extract, *ssa.If, *ssa.Jump, *ssa.DebugRef, *ssa.Phi:
			case *ssa.MapUpdate:
				if upd != nil {
					return nil, nil
				}
				upd = x
			case *ssa.UnOp:
				// reload of the destination map field inside the loop (dst is a field expression)
				if x.Op != token.MUL {
					return nil, nil
				}
			case *ssa.FieldAddr:
			default:
				return nil, nil
			}
		}
	}
	if rng == nil || upd == nil {
		return nil, nil
	}
	if _, isMap := rng.X.Type().Underlying().(*types.Map); !isMap {
		return nil, nil
	}
	k, ok1 := upd.Key.(*ssa.Extract)
	v, ok2 := upd.Value.(*ssa.Extract)
	if !ok1 || !ok2 || k.Index != 1 || v.Index != 2 || k.Tuple != v.Tuple {
		return nil, nil
	}
	if nx, ok := k.Tuple.(*ssa.Next); !ok || nx.Iter != rng {
		return nil, nil
	}
	if !types.Identical(rng.X.Type().Underlying(), upd.Map.Type().Underlying()) {
		return nil, nil
	}
	return rng.X, upd.Map
}

func (fx *FnExec) enterLoop(b *ssa.BasicBlock, li *loopInfo, st *blockState) {
	if src, dst := fx.copyIdiom(li); src != nil {
		// summarised exactly: dst' = dst overridden by src (when dst and src are different maps)
		li.clears = src // reuse: iteration is not executed symbolically
		mt := src.Type().Underlying().(*types.Map)
		sv := fx.term(fx.val(src))
		// the destination expression may be a field load inside the loop: evaluate it here
		var dv string
		// (a chain of field loads, x.a.b, when all of them stand inside the loop)
		var evalIn func(v ssa.Value, depth int) string
		evalIn = func(v ssa.Value, depth int) string {
			if u, ok := v.(*ssa.UnOp); ok && u.Op == token.MUL && li.body[u.Block().Index] && depth < 4 {
				if fa, ok := u.X.(*ssa.FieldAddr); ok {
					base := evalIn(fa.X, depth+1)
					if base == "" {
						return ""
					}
					pt := fa.X.Type().Underlying().(*types.Pointer).Elem()
					stt := pt.Underlying().(*types.Struct)
					ft := stt.Field(fa.Field).Type()
					return fx.loaded(ft, fx.load(&Place{Kind: PField, Ref: base, Struct: stt, Field: fa.Field, Elem: ft, SName: fx.W.structName(pt)}))
				}
				return ""
			}
			if in, ok := v.(ssa.Instruction); ok && in.Block() != nil && li.body[in.Block().Index] {
				return ""
			}
			return fx.term(fx.val(v))
		}
		if u, ok := dst.(*ssa.UnOp); ok && li.body[u.Block().Index] {
			dv = evalIn(u, 0)
		}
		if dv == "" {
			dv = fx.term(fx.val(dst))
		}
		fx.frameCheckMap(firstInstr(b), mt, dv)
		if fx.onStore != nil {
			save := fx.cur.pc
			fx.cur.pc = and(save, "(> "+sv+" 0)")
			fx.onStore(fx, firstInstr(b), &Place{Kind: PCell, Ref: dv, Elem: mt}, Val{})
			fx.cur.pc = save
		}
		fx.oblige("nilmap", "(or (= "+fx.mapLen(mt, sv)+" 0) (> "+dv+" 0))", firstInstr(b), "assignment to entry in nil map (map copy loop)")
		dn, vn, ln := fx.W.mapHeapNames(mt)
		ks, vs := fx.sortOf(mt.Key()), fx.sortOf(mt.Elem())
		dom, val, l := fx.mapHeaps(mt)
		nd := fx.havoc("copydom", "(Array "+ks+" Bool)")
		nv := fx.havoc("copyval", "(Array "+ks+" "+vs+")")
		nl := fx.havoc("copylen", "Int")
		srcHas := "(and (> " + sv + " 0) (select (select " + dom + " " + sv + ") qk))"
		fx.assume("(forall ((qk " + ks + ")) (! (= (select " + nd + " qk) (or (select (select " + dom + " " + dv + ") qk) " + srcHas + ")) :pattern ((select " + nd + " qk))))")
		fx.assume("(forall ((qk " + ks + ")) (! (= (select " + nv + " qk) (ite " + srcHas + " (select (select " + val + " " + sv + ") qk) (select (select " + val + " " + dv + ") qk))) :pattern ((select " + nv + " qk))))")
		fx.assume("(and (>= " + nl + " (select " + l + " " + dv + ")) (>= " + nl + " " + fx.mapLen(mt, sv) + ") (<= " + nl + " (+ (select " + l + " " + dv + ") " + fx.mapLen(mt, sv) + ")))")
		fx.assume("(distinct " + dv + " " + sv + ")") // copying a map onto itself is not summarised
		fx.setHeap(dn, "(Array Int (Array "+ks+" Bool))", "(store "+dom+" "+dv+" "+nd+")")
		fx.setHeap(vn, "(Array Int (Array "+ks+" "+vs+"))", "(store "+val+" "+dv+" "+nv+")")
		fx.setHeap(ln, "(Array Int Int)", "(store "+l+" "+dv+" "+nl+")")
		return
	}
	if m := fx.clearIdiom(li); m != nil {
		// summarised exactly: after the loop the map is empty; the body is not executed symbolically
		li.clears = m
		mt := m.Type().Underlying().(*types.Map)
		mv := fx.term(fx.val(m))
		fx.frameCheckMap(firstInstr(b), mt, mv)
		if fx.onStore != nil {
			fx.onStore(fx, firstInstr(b), &Place{Kind: PCell, Ref: mv, Elem: mt}, Val{})
		}
		fx.mapInit(mt, mv)
		return
	}
	// 1. invariant on entry edges (state = merged entry state; phis take entry values)
	invs := fx.loopInvariants(li)
	entryPhi := map[*ssa.Phi]Val{}
	// compute entry value of each phi (merge over non-back preds)
	type inc struct {
		idx  int
		cond string
		st   *blockState
	}
	var ins []inc
	for j, p := range b.Preds {
		if fx.backEdge[[2]int{p.Index, b.Index}] {
			continue
		}
		s := fx.bs[p]
		if s == nil || !s.done {
			continue
		}
		c := fx.edgeCond[[2]int{p.Index, b.Index}]
		if c == "" || c == "false" {
			continue
		}
		ins = append(ins, inc{j, c, s})
	}
	for _, in := range b.Instrs {
		phi, ok := in.(*ssa.Phi)
		if !ok {
			break
		}
		var term string
		for i := len(ins) - 1; i >= 0; i-- {
			v := fx.valIn(phi.Edges[ins[i].idx], ins[i].st)
			t := fx.termIn(v, ins[i].st)
			if term == "" {
				term = t
			} else {
				term = ite(ins[i].cond, t, term)
			}
		}
		n := fx.define(regName(phi)+"_entry", fx.sortOf(phi.Type()), term)
		entryPhi[phi] = Val{T: phi.Type(), S: n}
		fx.regs[phi] = entryPhi[phi]
	}
	for k, inv := range invs {
		t, err := fx.evalContract(inv, &evalEnv{fx: fx, heap: st.heap, oldHeap: fx.heap0, loop: b})
		if err != nil {
			fx.outside = append(fx.outside, fmt.Sprintf("loop %d invariant %q: %v", li.ordinal, truncate(inv.Text, 80), err))
			continue
		}
		o := fx.oblige("inv-entry", t, firstInstr(b), fmt.Sprintf("loop %d invariant #%d holds on entry: %s", li.ordinal, k+1, inv.Text))
		o.Props = inv.Props
	}
	// entry clauses: facts about the state in which the loop is reached (checked here; not assumed, so
	// that they do not weigh on the queries of the loop body)
	if fx.C != nil {
		for k, ec := range fx.C.LoopEntry[li.ordinal] {
			t, err := fx.evalContract(ec, &evalEnv{fx: fx, heap: st.heap, oldHeap: fx.heap0, loop: b})
			if err != nil {
				fx.outside = append(fx.outside, fmt.Sprintf("loop %d entry clause %q: %v", li.ordinal, truncate(ec.Text, 80), err))
				continue
			}
			fx.noAssumeNext = true
			o := fx.oblige("loop-entry", t, firstInstr(b), fmt.Sprintf("loop %d is reached in a state where (#%d): %s", li.ordinal, k+1, ec.Text))
			fx.noAssumeNext = false
			o.Props = ec.Props
		}
	}
	// 2. havoc: phis and modified heaps
	mods, iterFresh, all := fx.modifiedInLoop(li)
	acntEntry := fx.allocCount()
	// private objects that the loop body writes change from one iteration to the next
	fx.noFrame = map[string]bool{}
	for _, po := range fx.private {
		if po.def == nil || writtenInLoop(po.def, li) {
			fx.noFrame[po.ref] = true
		}
	}
	defer func() { fx.noFrame = nil }()
	if all {
		for name := range fx.W.heapSorts {
			fx.havocHeap(name)
		}
	} else {
		for _, name := range sortedKeys(mods) {
			sort, ok := fx.W.heapSorts[name]
			if !ok {
				continue
			}
			before := fx.heapArr(name, sort)
			fx.havocHeap(name)
			if iterFresh[name] {
				// only objects allocated inside the loop are written: everything that existed at loop
				// entry is unchanged (frame axiom)
				after := fx.cur.heap[name]
				fx.assumeGlobal("(forall ((qr Int)) (! (=> (<= qr (+ " + fx.allocBase() + " " + acntEntry + ")) (= (select " + after + " qr) (select " + before + " qr))) :pattern ((select " + after + " qr))))")
			}
		}
	}
	// ghosts modified in loop: havoc all ghosts conservatively when the loop contains calls
	for _, g := range fx.W.Contracts.Ghosts {
		if fx.loopTouchesGhost(li, g.Name) {
			fx.ghostEntry(g.Name) // make sure old(g) names the entry value, not the loop value
			st.gh[g.Name] = fx.havoc("gh_"+g.Name+"_l", g.Sort)
		}
	}
	{
		old := fx.allocCount()
		nc := fx.havoc("acnt_l", "Int")
		fx.assumeGlobal("(>= " + nc + " " + old + ")")
		st.gh["$acnt"] = nc
	}
	for _, in := range b.Instrs {
		phi, ok := in.(*ssa.Phi)
		if !ok {
			break
		}
		h := fx.havoc(regName(phi)+"_l", fx.sortOf(phi.Type()))
		fx.assumeGlobal(fx.typeInvariant(phi.Type(), h))
		fx.regs[phi] = Val{T: phi.Type(), S: h}
		// automatic monotonic invariant: x = phi(c, x + k), k >= 0  ==>  x >= entry
		if fx.monotoneUp(phi, b) {
			fx.assume("(>= " + h + " " + entryPhi[phi].S + ")")
		}
		// automatic ownership invariant: a variable that only ever holds nil or objects built by this
		// activation (make, literals, append chains) is nil or fresh in every iteration
		if localOnly(phi, map[ssa.Value]bool{}) {
			switch phi.Type().Underlying().(type) {
			case *types.Slice:
				fx.assume("(or (and (= (s.arr " + h + ") 0) (= (s.cap " + h + ") 0)) (and (> (s.arr " + h + ") " + fx.allocBase() + ") (<= (s.arr " + h + ") (+ alloc_base " + fx.allocCount() + "))))")
			case *types.Map, *types.Pointer:
				fx.assume("(or (= " + h + " 0) (and (> " + h + " " + fx.allocBase() + ") (<= " + h + " (+ alloc_base " + fx.allocCount() + "))))")
			}
		}
	}
	// 3. assume invariants for an arbitrary iteration
	for _, inv := range invs {
		t, err := fx.evalContract(inv, &evalEnv{fx: fx, heap: st.heap, oldHeap: fx.heap0, loop: b})
		if err == nil {
			fx.assume(t)
		}
	}
	// snapshots: ghost locals that keep the value an expression has at the head of this iteration
	if fx.C != nil {
		for _, sn := range fx.C.LoopSnap[li.ordinal] {
			v, err := fx.evalC(sn.Expr.ast, &evalEnv{fx: fx, heap: st.heap, oldHeap: fx.heap0, loop: b, gh: st.gh, oldGh: fx.entryGh})
			if err != nil {
				fx.outside = append(fx.outside, fmt.Sprintf("loop %d snapshot %s: %v", li.ordinal, sn.Name, err))
				continue
			}
			if fx.snaps == nil {
				fx.snaps = map[string]cval{}
			}
			if v.S != "" {
				v.S = fx.define(fmt.Sprintf("snap_%s_l%d", sanitize(sn.Name), li.ordinal), v.Sort, v.S)
			}
			fx.snaps[sn.Name] = v
		}
	}
	// decreases: remember the measure at the head
	if d := fx.loopDecreases(li); d != nil {
		t, err := fx.evalMeasure(d, &evalEnv{fx: fx, heap: st.heap, oldHeap: fx.heap0, loop: b})
		if err == nil {
			li.measure = fx.define(fmt.Sprintf("measure_l%d", li.ordinal), "Int", t)
			li.hasDec = true
		} else if !d.Auto {
			fx.outside = append(fx.outside, fmt.Sprintf("loop %d decreases: %v", li.ordinal, err))
		}
	}
}

func (fx *FnExec) loopTouchesGhost(li *loopInfo, name string) bool {
	for _, b := range fx.Fn.Blocks {
		if !li.body[b.Index] {
			continue
		}
		for _, in := range b.Instrs {
			c, ok := in.(ssa.CallInstruction)
			if !ok {
				continue
			}
			// a callee whose contract updates the ghost
			if ct := fx.contractForCall(c.Common()); ct != nil && ct.GhostSet[name] != nil {
				return true
			}
			// a family hook that updates its ghost at this call
			if name == fx.hookGhost && fx.ghostTouch != nil && fx.ghostTouch(c) {
				return true
			}
			if name == fx.hookGhost && fx.ghostTouch == nil && fx.onCall != nil {
				return true
			}
		}
	}
	return false
}

func firstInstr(b *ssa.BasicBlock) ssa.Instruction {
	for _, in := range b.Instrs {
		if in.Pos().IsValid() {
			return in
		}
	}
	if len(b.Instrs) > 0 {
		return b.Instrs[0]
	}
	return nil
}

// monotoneUp: phi = [entry..., backedge: phi + c] with c a non-negative constant (through one BinOp)
func (fx *FnExec) monotoneUp(phi *ssa.Phi, b *ssa.BasicBlock) bool {
	if _, _, ok := intRange(phi.Type()); !ok {
		return false
	}
	for j, p := range b.Preds {
		if !fx.backEdge[[2]int{p.Index, b.Index}] {
			continue
		}
		e := phi.Edges[j]
		if e == phi {
			continue
		}
		bo, ok := e.(*ssa.BinOp)
		if !ok || bo.Op != token.ADD {
			return false
		}
		c, ok := bo.Y.(*ssa.Const)
		if !(bo.X == phi && ok && c.Value != nil && c.Int64() >= 0) {
			return false
		}
	}
	return true
}

// closeBackEdge checks invariant preservation and the decreases clause along p -> head.
func (fx *FnExec) closeBackEdge(p, head *ssa.BasicBlock, cond string) {
	li := fx.loopHead[head.Index]
	invs := fx.loopInvariants(li)
	dec := fx.loopDecreases(li)
	var steps []*CExpr
	if fx.C != nil {
		steps = fx.C.LoopStep[li.ordinal]
	}
	if len(invs) == 0 && dec == nil && len(steps) == 0 {
		return
	}
	// evaluate with phis bound to the values flowing along this edge
	saved := map[*ssa.Phi]Val{}
	var idx int
	for j, q := range head.Preds {
		if q == p {
			idx = j
		}
	}
	savePC := fx.cur.pc
	fx.cur.pc = cond
	var news []Val
	var phis []*ssa.Phi
	for _, in := range head.Instrs {
		phi, ok := in.(*ssa.Phi)
		if !ok {
			break
		}
		v := fx.val(phi.Edges[idx])
		news = append(news, Val{T: phi.Type(), S: fx.term(v)})
		phis = append(phis, phi)
	}
	for i, phi := range phis {
		saved[phi] = fx.regs[phi]
		fx.regs[phi] = news[i]
	}
	for k, inv := range invs {
		t, err := fx.evalContract(inv, &evalEnv{fx: fx, heap: fx.cur.heap, oldHeap: fx.heap0, loop: head})
		if err != nil {
			continue
		}
		o := fx.oblige("inv-pres", t, lastInstr(p), fmt.Sprintf("loop %d invariant #%d preserved: %s", li.ordinal, k+1, inv.Text))
		o.Props = inv.Props
	}
	for k, st := range steps {
		t, err := fx.evalContract(st, &evalEnv{fx: fx, heap: fx.cur.heap, oldHeap: fx.heap0, loop: head, at: p})
		if err != nil {
			fx.outside = append(fx.outside, fmt.Sprintf("loop %d step #%d: %v", li.ordinal, k+1, err))
			continue
		}
		o := fx.oblige("step", t, lastInstr(p), fmt.Sprintf("loop %d step #%d (one iteration, from its head to here): %s", li.ordinal, k+1, st.Text))
		o.Props = st.Props
	}
	if dec != nil && li.hasDec {
		t, err := fx.evalMeasure(dec, &evalEnv{fx: fx, heap: fx.cur.heap, oldHeap: fx.heap0, loop: head})
		if err != nil && !dec.Auto {
			fx.outside = append(fx.outside, fmt.Sprintf("loop %d decreases at the back edge: %v", li.ordinal, err))
		}
		if err == nil {
			o := fx.oblige("dec", "(and (< "+t+" "+li.measure+") (>= "+li.measure+" 0))", lastInstr(p), fmt.Sprintf("loop %d measure decreases and is bounded: %s", li.ordinal, dec.Text))
			o.Props = dec.Props
		}
	}
	for phi, v := range saved {
		fx.regs[phi] = v
	}
	fx.cur.pc = savePC
}

func lastInstr(b *ssa.BasicBlock) ssa.Instruction {
	for i := len(b.Instrs) - 1; i >= 0; i-- {
		if b.Instrs[i].Pos().IsValid() {
			return b.Instrs[i]
		}
	}
	return firstInstr(b)
}

func (fx *FnExec) loopInvariants(li *loopInfo) []*CExpr {
	if fx.C == nil {
		return nil
	}
	var out []*CExpr
	for _, e := range append(append([]*CExpr{}, fx.C.LoopInv[-1]...), fx.C.LoopInv[li.ordinal]...) {
		if e.GhostOnly != "" && !fx.loopTouchesGhost(li, e.GhostOnly) {
			continue
		}
		out = append(out, e)
	}
	return out
}

// deriveMeasures: termination measures are derived from loop guards only in runs that claim them (C05,
// and the dump command): a derived measure adds definitions and, once checked, a fact to every later
// query of its function, and the heaviest queries of the tokenizers are sensitive to that.
var deriveMeasures = true

func (fx *FnExec) loopDecreases(li *loopInfo) *CExpr {
	if fx.C != nil {
		if d := fx.C.LoopDec[li.ordinal]; d != nil {
			return d
		}
	}
	if !deriveMeasures {
		return nil
	}
	if fx.autoDec == nil {
		fx.autoDec = map[int]*CExpr{}
	}
	if d, ok := fx.autoDec[li.ordinal]; ok {
		return d
	}
	d := fx.deriveMeasure(li)
	fx.autoDec[li.ordinal] = d
	return d
}

// deriveMeasure: a termination measure read off the loop's own guard. A loop whose head ends in
// `if x < y` (<=, >, >=) over integers gets the measure y - x (its distance from the bound); the two
// operands are written down as a contract expression (locals by name, fields of parameters, len) so
// that they are evaluated like any written decreases clause: at the head, and again at every back
// edge, where the measure must have become smaller. A loop without such a guard (for { ... }) gets no
// measure: its termination is not claimed unless a decreases clause is written for it.
func (fx *FnExec) deriveMeasure(li *loopInfo) *CExpr {
	if len(li.head.Instrs) == 0 {
		return nil
	}
	iff, ok := li.head.Instrs[len(li.head.Instrs)-1].(*ssa.If)
	if !ok {
		return nil
	}
	bo, ok := iff.Cond.(*ssa.BinOp)
	if !ok {
		return nil
	}
	if b, ok := bo.X.Type().Underlying().(*types.Basic); !ok || b.Info()&types.IsInteger == 0 {
		return nil
	}
	// the guard must be the condition for staying in the loop
	stay := len(li.head.Succs) == 2 && li.body[li.head.Succs[0].Index] && !li.body[li.head.Succs[1].Index]
	if !stay {
		return nil
	}
	x, okx := measureText(bo.X, 0)
	y, oky := measureText(bo.Y, 0)
	if !okx || !oky {
		return nil
	}
	var text string
	switch bo.Op {
	case token.LSS:
		text = "(" + y + ") - (" + x + ")"
	case token.LEQ:
		text = "(" + y + ") - (" + x + ") + 1"
	case token.GTR:
		text = "(" + x + ") - (" + y + ")"
	case token.GEQ:
		text = "(" + x + ") - (" + y + ") + 1"
	default:
		return nil
	}
	e, err := parseCExpr(text)
	if err != nil {
		return nil
	}
	return &CExpr{Text: text + " (derived from the loop's guard)", ast: e, Props: []string{"C05"}, Auto: true}
}

// measureText writes an SSA value as a contract expression, where it has such a form.
func measureText(v ssa.Value, depth int) (string, bool) {
	if depth > 4 {
		return "", false
	}
	switch x := v.(type) {
	case *ssa.Const:
		if x.Value != nil && x.Value.Kind() == constant.Int {
			s := x.Value.ExactString()
			if strings.HasPrefix(s, "-") {
				return "(0 - " + s[1:] + ")", true
			}
			return s, true
		}
	case *ssa.Parameter:
		return x.Name(), true
	case *ssa.Phi:
		if x.Comment != "" && isIdent(x.Comment) {
			return x.Comment, true
		}
	case *ssa.UnOp:
		if x.Op == token.MUL {
			if fa, ok := x.X.(*ssa.FieldAddr); ok {
				base, ok := measureText(fa.X, depth+1)
				if !ok {
					return "", false
				}
				if pt, ok := fa.X.Type().Underlying().(*types.Pointer); ok {
					if st, ok := pt.Elem().Underlying().(*types.Struct); ok {
						return base + "." + st.Field(fa.Field).Name(), true
					}
				}
			}
		}
	case *ssa.Call:
		if bi, ok := x.Call.Value.(*ssa.Builtin); ok && bi.Name() == "len" && len(x.Call.Args) == 1 {
			a, ok := measureText(x.Call.Args[0], depth+1)
			if ok {
				return "len(" + a + ")", true
			}
		}
	case *ssa.BinOp:
		if x.Op == token.ADD || x.Op == token.SUB {
			a, ok1 := measureText(x.X, depth+1)
			b, ok2 := measureText(x.Y, depth+1)
			if ok1 && ok2 {
				return "(" + a + " " + x.Op.String() + " " + b + ")", true
			}
		}
	}
	return "", false
}

func isIdent(s string) bool {
	for i, r := range s {
		if !(r == '_' || r >= 'a' && r <= 'z' || r >= 'A' && r <= 'Z' || i > 0 && r >= '0' && r <= '9') {
			return false
		}
	}
	return s != ""
}

// ---------------------------------------------------------------- instructions

func (fx *FnExec) setReg(v ssa.Value, val Val) {
	val.T = v.Type()
	fx.regs[v] = val
}

func (fx *FnExec) defReg(v ssa.Value, term string) {
	n := fx.define(regName(v), fx.sortOf(v.Type()), term)
	fx.regs[v] = Val{T: v.Type(), S: n}
}

func (fx *FnExec) execInstr(in ssa.Instruction) {
	switch x := in.(type) {
	case *ssa.DebugRef:
	case *ssa.Alloc:
		v := fx.allocOf(x.Type().Underlying().(*types.Pointer).Elem(), sanitize(x.Name()))
		fx.setReg(x, v)
		// a local array that is only ever indexed in place is private to this activation: nothing
		// the function calls can read or write it
		if at, ok := x.Type().Underlying().(*types.Pointer).Elem().Underlying().(*types.Array); ok && v.P != nil && v.P.Kind == PArr && localArrayPrivate(x) {
			fx.private = append(fx.private, privateObj{ref: v.P.Arr, heaps: []string{fx.W.elemHeapName(at.Elem())}, def: x})
		}
		// a local variable cell (a result kept across deferred calls, a variable whose address the
		// compiler took for itself) that is only ever stored to and loaded from directly - never
		// captured by a closure, passed or stored - is private too
		if v.P != nil && v.P.Kind == PCell && v.P.Ref != "" && localCellPrivate(x) {
			name, _ := fx.cellHeap(v.P.Elem)
			fx.private = append(fx.private, privateObj{ref: v.P.Ref, heaps: []string{name}, def: x})
		}
	case *ssa.FieldAddr:
		base := fx.val(x.X)
		pt := x.X.Type().Underlying().(*types.Pointer).Elem()
		st := pt.Underlying().(*types.Struct)
		var pl *Place
		if base.P != nil && base.P.Kind != PCell {
			pl = &Place{Kind: PField, Base: base.P, Struct: st, Field: x.Field, Elem: st.Field(x.Field).Type(), SName: fx.W.structName(pt)}
		} else {
			ref := base.S
			if ref == "" && base.P != nil {
				ref = base.P.Ref
			}
			pl = &Place{Kind: PField, Ref: ref, Struct: st, Field: x.Field, Elem: st.Field(x.Field).Type(), SName: fx.W.structName(pt)}
		}
		fx.setReg(x, Val{P: pl})
	case *ssa.Field:
		base := fx.val(x.X)
		si := fx.W.structInfoOf(x.X.Type())
		fx.defReg(x, "("+si.fields[x.Field]+" "+fx.term(base)+")")
	case *ssa.IndexAddr:
		fx.execIndexAddr(x)
	case *ssa.Index:
		fx.execIndex(x)
	case *ssa.Lookup:
		fx.execLookup(x)
	case *ssa.UnOp:
		fx.execUnOp(x)
	case *ssa.BinOp:
		fx.execBinOp(x)
	case *ssa.Store:
		addr := fx.val(x.Addr)
		v := fx.val(x.Val)
		pl := fx.placeOf(addr)
		if fx.onStore != nil {
			fx.onStore(fx, x, pl, v)
		}
		fx.frameCheckPlace(x, pl)
		fx.store(pl, fx.term(v))
	case *ssa.Slice:
		fx.execSlice(x)
	case *ssa.MakeSlice:
		ln, cp := fx.term(fx.val(x.Len)), fx.term(fx.val(x.Cap))
		fx.oblige("makeslice", "(and (<= 0 "+ln+") (<= "+ln+" "+cp+"))", x, "make: 0 <= len <= cap")
		a := fx.freshRef("mk")
		et := x.Type().Underlying().(*types.Slice).Elem()
		name, sort := fx.elemHeap(et)
		fx.setHeap(name, sort, "(store "+fx.heapArr(name, sort)+" "+a+" ((as const (Array Int "+fx.sortOf(et)+")) "+fx.zero(et)+"))")
		fx.defReg(x, "(mk-slice "+a+" 0 "+ln+" "+cp+")")
	case *ssa.MakeMap:
		r := fx.freshRef("map")
		mt := x.Type().Underlying().(*types.Map)
		fx.mapInit(mt, r)
		fx.setReg(x, Val{S: r})
		if !escapes(x) {
			a, b, c := fx.W.mapHeapNames(mt)
			fx.private = append(fx.private, privateObj{ref: r, heaps: []string{a, b, c}, def: x})
		}
	case *ssa.MapUpdate:
		fx.execMapUpdate(x)
	case *ssa.MakeInterface:
		fx.execMakeInterface(x)
	case *ssa.ChangeInterface:
		fx.setReg(x, Val{S: fx.term(fx.val(x.X))})
	case *ssa.ChangeType:
		v := fx.val(x.X)
		v.T = x.Type()
		fx.regs[x] = v
	case *ssa.Convert:
		fx.execConvert(x)
	case *ssa.TypeAssert:
		fx.execTypeAssert(x)
	case *ssa.Extract:
		t := fx.val(x.Tuple)
		if x.Index < len(t.Tup) {
			v := t.Tup[x.Index]
			v.T = x.Type()
			fx.regs[x] = v
		} else {
			fx.setReg(x, Val{S: fx.havoc("ext", fx.sortOf(x.Type()))})
		}
	case *ssa.MakeClosure:
		r := fx.freshRef("clo")
		fx.setReg(x, Val{S: r})
		fx.W.noteClosure(fx, x, r)
	case *ssa.Range:
		fx.setReg(x, Val{S: fx.havoc("iter", "U")})
	case *ssa.Next:
		fx.execNext(x)
	case *ssa.Call:
		fx.execCall(x, x.Common(), x)
	case *ssa.Defer:
		var args []Val
		c := x.Common()
		if c.IsInvoke() {
			args = append(args, fx.val(c.Value))
		}
		for _, a := range c.Args {
			v := fx.val(a)
			if v.S == "" {
				v.S = fx.term(v)
			}
			args = append(args, v)
		}
		fx.deferred = append(fx.deferred, deferredCall{in: x, args: args, block: x.Block()})
	case *ssa.RunDefers:
		// deferred calls run in LIFO order; a defer registered on a path that does not dominate this
		// exit is executed as well (its effects are havoc, its preconditions are checked under the
		// path condition of the registering block)
		for i := len(fx.deferred) - 1; i >= 0; i-- {
			d := fx.deferred[i]
			st := fx.bs[d.block]
			if st == nil || !st.done && d.block != fx.curBlock {
				continue
			}
			if !d.block.Dominates(fx.curBlock) {
				save := fx.cur.pc
				fx.cur.pc = and(save, st.pc)
				fx.execCallArgs(d.in, d.in.Common(), nil, d.args)
				fx.cur.pc = save
				continue
			}
			fx.execCallArgs(d.in, d.in.Common(), nil, d.args)
		}
	case *ssa.Go:
		fx.outside = append(fx.outside, "go statement")
	case *ssa.Send, *ssa.Select:
		fx.outside = append(fx.outside, "channel operation")
	case *ssa.If:
		c := fx.term(fx.val(x.Cond))
		b := x.Block()
		if fx.recordBranches {
			fx.branches = append(fx.branches, branchRec{in: x, pc: fx.cur.pc, cond: c})
		}
		fx.flow(b, b.Succs[0], and(fx.cur.pc, c))
		fx.flow(b, b.Succs[1], and(fx.cur.pc, not(c)))
	case *ssa.Jump:
		b := x.Block()
		fx.flow(b, b.Succs[0], fx.cur.pc)
	case *ssa.Return:
		fx.execReturn(x)
	case *ssa.Panic:
		o := fx.oblige("panic", "false", x, "explicit panic unreachable")
		_ = o
	case *ssa.SliceToArrayPointer, *ssa.MultiConvert:
		fx.setReg(x.(ssa.Value), Val{S: fx.havoc("cv", fx.sortOf(x.(ssa.Value).Type()))})
	default:
		if v, ok := in.(ssa.Value); ok {
			fx.setReg(v, Val{S: fx.havoc("unk", fx.sortOf(v.Type()))})
		}
		fx.notes = append(fx.notes, fmt.Sprintf("unsupported instruction %T", in))
	}
}

func (fx *FnExec) flow(from, to *ssa.BasicBlock, cond string) {
	key := [2]int{from.Index, to.Index}
	if fx.backEdge[key] {
		fx.closeBackEdge(from, to, cond)
		return
	}
	// name the edge condition to keep terms small
	n := fmt.Sprintf("%se_b%d_b%d", fx.namePrefix, from.Index, to.Index)
	if prev, ok := fx.edgeCond[key]; ok {
		// both If branches to the same block
		fx.emit("(define-fun %s_2 () Bool %s)", n, or(prev, cond))
		fx.edgeCond[key] = n + "_2"
		return
	}
	fx.emit("(define-fun %s () Bool %s)", n, cond)
	fx.edgeCond[key] = n
}

func (fx *FnExec) execIndexAddr(x *ssa.IndexAddr) {
	base := fx.val(x.X)
	idx := fx.term(fx.val(x.Index))
	switch t := x.X.Type().Underlying().(type) {
	case *types.Slice:
		s := fx.term(base)
		fx.oblige("idx", "(and (<= 0 "+idx+") (< "+idx+" (s.len "+s+")))", x, "index in range")
		fx.instantiateAt(s, idx)
		fx.setReg(x, Val{P: &Place{Kind: PElem, Arr: "(s.arr " + s + ")", Idx: "(+ (s.off " + s + ") " + idx + ")", Elem: t.Elem()}})
	case *types.Pointer:
		arr := t.Elem().Underlying().(*types.Array)
		pl := fx.placeOf(base)
		if !isConstIndexBelow(x.Index, arr.Len()) {
			fx.oblige("idx", fmt.Sprintf("(and (<= 0 %s) (< %s %d))", idx, idx, arr.Len()), x, "array index in range")
		}
		aref := pl.Arr
		if pl.Kind != PArr {
			aref = fx.term(base)
		}
		fx.setReg(x, Val{P: &Place{Kind: PElem, Arr: aref, Idx: idx, Elem: arr.Elem()}})
	}
}

func isConstIndexBelow(v ssa.Value, n int64) bool {
	if c, ok := v.(*ssa.Const); ok && c.Value != nil {
		i := c.Int64()
		return i >= 0 && i < n
	}
	return false
}

func (fx *FnExec) execIndex(x *ssa.Index) {
	base := fx.term(fx.val(x.X))
	idx := fx.term(fx.val(x.Index))
	switch t := x.X.Type().Underlying().(type) {
	case *types.Array:
		if !isConstIndexBelow(x.Index, t.Len()) {
			fx.oblige("idx", fmt.Sprintf("(and (<= 0 %s) (< %s %d))", idx, idx, t.Len()), x, "array index in range")
		}
		fx.defReg(x, "(select "+base+" "+idx+")")
	case *types.Basic: // string (generic instantiation)
		fx.oblige("idx", "(and (<= 0 "+idx+") (< "+idx+" (slen "+base+")))", x, "string index in range")
		fx.defReg(x, "(sat "+base+" "+idx+")")
	default:
		fx.setReg(x, Val{S: fx.havoc("index", fx.sortOf(x.Type()))})
	}
}

func (fx *FnExec) execLookup(x *ssa.Lookup) {
	base := fx.term(fx.val(x.X))
	idx := fx.term(fx.val(x.Index))
	if mt, ok := x.X.Type().Underlying().(*types.Map); ok {
		fx.hashableKey(x, mt, idx)
		dom, val, _ := fx.mapHeaps(mt)
		has := "(select (select " + dom + " " + base + ") " + idx + ")"
		raw := "(select (select " + val + " " + base + ") " + idx + ")"
		v := fx.loaded(mt.Elem(), raw)
		vz := ite(has, v, fx.zero(mt.Elem()))
		if x.CommaOk {
			vt := fx.define(regName(x)+"_v", fx.sortOf(mt.Elem()), vz)
			ok := fx.define(regName(x)+"_ok", "Bool", and("(> "+base+" 0)", has))
			fx.regs[x] = Val{T: x.Type(), Tup: []Val{{T: mt.Elem(), S: vt}, {T: types.Typ[types.Bool], S: ok}}}
		} else {
			fx.defReg(x, ite("(> "+base+" 0)", vz, fx.zero(mt.Elem())))
		}
		return
	}
	// string
	fx.oblige("idx", "(and (<= 0 "+idx+") (< "+idx+" (slen "+base+")))", x, "string index in range")
	fx.defReg(x, "(sat "+base+" "+idx+")")
	fx.assume("(and (<= 0 " + fx.regs[x].S + ") (<= " + fx.regs[x].S + " 255))")
}

func (fx *FnExec) mapHeaps(mt *types.Map) (dom, val, ln string) {
	dn, vn, ln2 := fx.W.mapHeapNames(mt)
	ks, vs := fx.sortOf(mt.Key()), fx.sortOf(mt.Elem())
	dom = fx.heapArr(dn, "(Array Int (Array "+ks+" Bool))")
	val = fx.heapArr(vn, "(Array Int (Array "+ks+" "+vs+"))")
	ln = fx.heapArr(ln2, "(Array Int Int)")
	return
}

func (fx *FnExec) mapInit(mt *types.Map, r string) {
	dn, _, ln := fx.W.mapHeapNames(mt)
	ks := fx.sortOf(mt.Key())
	dom, _, l := fx.mapHeaps(mt)
	fx.setHeap(dn, "(Array Int (Array "+ks+" Bool))", "(store "+dom+" "+r+" ((as const (Array "+ks+" Bool)) false))")
	fx.setHeap(ln, "(Array Int Int)", "(store "+l+" "+r+" 0)")
}

func (fx *FnExec) mapLen(mt *types.Map, m string) string {
	_, _, l := fx.mapHeaps(mt)
	n := fx.define("maplen", "Int", "(select "+l+" "+m+")")
	fx.assume("(>= " + n + " 0)")
	return ite("(> "+m+" 0)", n, "0")
}

// tagOf returns the tag of a dynamic type and states, once per function, whether values of that type
// can be hashed (used as map keys).
func (fx *FnExec) tagOf(t types.Type) int {
	id := fx.W.typeTag(t)
	if fx.hashStated == nil {
		fx.hashStated = map[int]bool{}
		fx.assumeGlobal("(hashable 0)")
	}
	if !fx.hashStated[id] {
		fx.hashStated[id] = true
		fx.tagsStated = append(fx.tagsStated, id)
		for _, fn := range sortedKeys(fx.ifacePreds) {
			fx.stateImplements(fn, fx.ifacePreds[fn], id, t)
		}
		// (hashable tag): every value of this dynamic type can be compared and hashed without a
		// runtime panic. True for strictly comparable types, false for types that are not
		// comparable at all; a comparable type with an interface-typed component (a struct or an
		// array holding interfaces) depends on the value and is left open: such a value is safe
		// when reflect.Value.Comparable says so (uf_cmpSafe).
		if !types.Comparable(t) {
			fx.assumeGlobal(fmt.Sprintf("(not (hashable %d))", id))
		} else if strictlyComparable(t, 0) {
			fx.assumeGlobal(fmt.Sprintf("(hashable %d)", id))
		}
	}
	return id
}

// strictlyComparable: comparable, and no component of interface type (whose comparison can panic
// depending on the dynamic value).
func strictlyComparable(t types.Type, depth int) bool {
	if depth > 8 {
		return false
	}
	switch u := t.Underlying().(type) {
	case *types.Interface:
		return false
	case *types.Struct:
		for i := 0; i < u.NumFields(); i++ {
			if !strictlyComparable(u.Field(i).Type(), depth+1) {
				return false
			}
		}
		return true
	case *types.Array:
		return strictlyComparable(u.Elem(), depth+1)
	}
	return types.Comparable(t)
}

// localCellPrivate: the variable's address is used only as the target of direct stores and loads.
func localCellPrivate(al *ssa.Alloc) bool {
	if al.Heap {
		return false
	}
	refs := al.Referrers()
	if refs == nil {
		return false
	}
	for _, r := range *refs {
		switch x := r.(type) {
		case *ssa.DebugRef:
		case *ssa.Store:
			if x.Addr != ssa.Value(al) || x.Val == ssa.Value(al) {
				return false
			}
		case *ssa.UnOp:
			if x.Op != token.MUL {
				return false
			}
		default:
			return false
		}
	}
	return true
}

// localArrayPrivate: the array variable is used only through element addresses that are loaded from
// or stored to directly (never sliced, passed, captured or stored).
func localArrayPrivate(al *ssa.Alloc) bool {
	refs := al.Referrers()
	if refs == nil {
		return false
	}
	for _, r := range *refs {
		switch x := r.(type) {
		case *ssa.DebugRef:
		case *ssa.IndexAddr:
			if x.X != ssa.Value(al) {
				return false
			}
			rr := x.Referrers()
			if rr == nil {
				return false
			}
			for _, r2 := range *rr {
				switch y := r2.(type) {
				case *ssa.UnOp:
					if y.Op != token.MUL {
						return false
					}
				case *ssa.Store:
					if y.Addr != ssa.Value(x) {
						return false // the element address itself is stored somewhere
					}
				case *ssa.DebugRef:
				default:
					return false
				}
			}
		case *ssa.Store:
			// whole-array initialisation: *al = [N]T{...} (the array value is stored into the variable)
			if x.Addr != ssa.Value(al) {
				return false
			}
		default:
			return false
		}
	}
	return true
}

// writtenInLoop: some instruction of the loop body writes the private object allocated by def
// (a private object is only ever written through the instructions that use its allocation).
func writtenInLoop(def ssa.Value, li *loopInfo) bool {
	refs := def.Referrers()
	if refs == nil {
		return true
	}
	var visit func(v ssa.Value, refs []ssa.Instruction, depth int) bool
	visit = func(v ssa.Value, refs []ssa.Instruction, depth int) bool {
		if depth > 4 {
			return true
		}
		for _, r := range refs {
			in := li.body[r.Block().Index]
			switch x := r.(type) {
			case *ssa.MapUpdate:
				if in && x.Map == v {
					return true
				}
			case *ssa.Store:
				if in && x.Addr == v {
					return true
				}
			case *ssa.Call:
				if b, ok := x.Call.Value.(*ssa.Builtin); ok && in {
					switch b.Name() {
					case "delete", "clear", "copy", "append":
						return true
					}
				}
			case *ssa.IndexAddr:
				// element address of a local array: writes go through it
				if rr := x.Referrers(); rr != nil && visit(x, *rr, depth+1) {
					return true
				}
			case *ssa.FieldAddr:
				if rr := x.Referrers(); rr != nil && visit(x, *rr, depth+1) {
					return true
				}
			case *ssa.Phi:
				if rr := x.Referrers(); rr != nil && visit(x, *rr, depth+1) {
					return true
				}
			}
		}
		return false
	}
	return visit(def, *refs, 0)
}

// typeInvOf: the declared object invariant of *T, if any.
func (fx *FnExec) typeInvOf(t types.Type) *Contract {
	pt, ok := t.Underlying().(*types.Pointer)
	if !ok || fx.W.Contracts == nil {
		return nil
	}
	n := namedTypeName(pt.Elem())
	if n == "" {
		return nil
	}
	return fx.W.Contracts.ByName["typeinv "+n]
}

// assumeTypeInv: a non-nil *T that existed before this activation satisfies T's object invariant.
func (fx *FnExec) assumeTypeInv(t types.Type, ref string, heap heapState) {
	ti := fx.typeInvOf(t)
	if ti == nil || fx.inTypeInv {
		return
	}
	fx.inTypeInv = true
	defer func() { fx.inTypeInv = false }()
	for _, inv := range ti.Requires {
		env := &evalEnv{fx: fx, heap: heap, oldHeap: heap, names: map[string]Val{"x": {T: t, S: ref}}}
		if e, err := fx.evalC(inv.ast, env); err == nil {
			fx.assume("(=> (and (> " + ref + " 0) (< " + ref + " " + fx.allocBase() + ")) " + e.S + ")")
			fx.usedAssumption("object invariant of " + ti.Name + ": " + inv.Text)
		}
	}
}

// hashableKey: using an interface value as a map key panics when its dynamic type is not comparable
// (slice, map, func). The obligation is generated for keys of interface type only; a struct key with
// interface fields is not examined (stated in the trusted base).
func (fx *FnExec) hashableKey(in ssa.Instruction, mt *types.Map, k string) {
	if _, ok := mt.Key().Underlying().(*types.Interface); !ok {
		return
	}
	// (hashable tag) is declared in spec/00_base.smt2; facts are stated where tags are introduced (tagOf)
	fx.declareFun("uf_cmpSafe", []string{"Iface"}, "Bool")
	fx.oblige("hash", "(or (hashable (i.tag "+k+")) (uf_cmpSafe "+k+"))", in, "map key of interface type has a comparable dynamic type (runtime error: hash of unhashable type)")
}

func (fx *FnExec) execMapUpdate(x *ssa.MapUpdate) {
	m := fx.term(fx.val(x.Map))
	k := fx.term(fx.val(x.Key))
	v := fx.term(fx.val(x.Value))
	mt := x.Map.Type().Underlying().(*types.Map)
	fx.hashableKey(x, mt, k)
	fx.oblige("nilmap", "(> "+m+" 0)", x, "assignment to entry in nil map")
	if fx.onStore != nil {
		fx.onStore(fx, x, &Place{Kind: PCell, Ref: m, Elem: mt}, Val{})
	}
	fx.frameCheckMap(x, mt, m)
	fx.mapStore(mt, m, k, v)
}

func (fx *FnExec) mapStore(mt *types.Map, m, k, v string) {
	dn, vn, ln := fx.W.mapHeapNames(mt)
	ks, vs := fx.sortOf(mt.Key()), fx.sortOf(mt.Elem())
	dom, val, l := fx.mapHeaps(mt)
	had := "(select (select " + dom + " " + m + ") " + k + ")"
	newLen := "(+ (select " + l + " " + m + ") " + ite(had, "0", "1") + ")"
	fx.setHeap(ln, "(Array Int Int)", "(store "+l+" "+m+" "+newLen+")")
	fx.setHeap(dn, "(Array Int (Array "+ks+" Bool))", "(store "+dom+" "+m+" (store (select "+dom+" "+m+") "+k+" true))")
	fx.setHeap(vn, "(Array Int (Array "+ks+" "+vs+"))", "(store "+val+" "+m+" (store (select "+val+" "+m+") "+k+" "+v+"))")
}

func (fx *FnExec) mapDelete(mt *types.Map, m, k string) {
	dn, _, ln := fx.W.mapHeapNames(mt)
	ks := fx.sortOf(mt.Key())
	dom, _, l := fx.mapHeaps(mt)
	had := "(select (select " + dom + " " + m + ") " + k + ")"
	newLen := "(- (select " + l + " " + m + ") " + ite(had, "1", "0") + ")"
	fx.setHeap(ln, "(Array Int Int)", "(store "+l+" "+m+" "+newLen+")")
	fx.setHeap(dn, "(Array Int (Array "+ks+" Bool))", "(store "+dom+" "+m+" (store (select "+dom+" "+m+") "+k+" false))")
}

func (fx *FnExec) execUnOp(x *ssa.UnOp) {
	v := fx.val(x.X)
	switch x.Op {
	case token.MUL: // load
		pl := fx.placeOf(v)
		if pl.Kind == PStrByte {
			fx.oblige("idx", "(and (<= 0 "+pl.Idx+") (< "+pl.Idx+" (slen "+pl.Ref+")))", x, "read through unsafe string pointer stays inside the string")
		}
		if fx.onLoad != nil {
			fx.onLoad(fx, x, pl)
		}
		t := fx.load(pl)
		n := fx.loaded(x.Type(), t)
		fx.setReg(x, Val{S: n})
	case token.NOT:
		fx.defReg(x, not(fx.term(v)))
	case token.SUB:
		if fx.sortOf(x.Type()) == "Int" {
			t := "(- " + fx.term(v) + ")"
			if fx.checked {
				if lo, hi, ok := intRange(x.Type()); ok {
					fx.oblige("ovf", "(and (<= "+lo+" "+t+") (<= "+t+" "+hi+"))", x, "negation overflow")
				}
			}
			fx.defReg(x, t)
		} else {
			fx.declareFun("f_neg", []string{"F"}, "F")
			fx.defReg(x, fx.ufApp("f_neg", "F", fx.term(v)))
		}
	default:
		fx.setReg(x, Val{S: fx.havoc("unop", fx.sortOf(x.Type()))})
		if s := fx.sortOf(x.Type()); s == "Int" {
			fx.assume(fx.typeInvariant(x.Type(), fx.regs[x].S))
		}
	}
}

// ufApp applies an uninterpreted function, declaring it on first use with argument sorts inferred
// from the call (all args given as (term, sort) pairs would be heavier; we pass sorts explicitly).
func (fx *FnExec) ufApp(name, ret string, args ...string) string {
	return "(" + name + " " + strings.Join(args, " ") + ")"
}

func (fx *FnExec) declareFun(name string, argSorts []string, ret string) {
	if fx.declared[name] {
		return
	}
	if _, inSpec := fx.W.Contracts.Specs[name]; inSpec {
		fx.declared[name] = true
		return
	}
	fx.declared[name] = true
	fx.emit("(declare-fun %s (%s) %s)", name, strings.Join(argSorts, " "), ret)
}

func (fx *FnExec) execBinOp(x *ssa.BinOp) {
	a, b := fx.term(fx.val(x.X)), fx.term(fx.val(x.Y))
	xs := fx.sortOf(x.X.Type())
	switch xs {
	case "Int":
		fx.binOpInt(x, a, b)
	case "Bool":
		switch x.Op {
		case token.EQL:
			fx.defReg(x, eq(a, b))
		case token.NEQ:
			fx.defReg(x, not(eq(a, b)))
		case token.AND, token.LAND:
			fx.defReg(x, and(a, b))
		case token.OR, token.LOR:
			fx.defReg(x, or(a, b))
		default:
			fx.setReg(x, Val{S: fx.havoc("bop", fx.sortOf(x.Type()))})
		}
	case "Str":
		if (x.Op == token.EQL || x.Op == token.NEQ) && fx.C != nil && fx.C.StringContent {
			// strings are equal exactly when they have the same bytes (instance of extensionality
			// for the two strings compared here)
			fx.assume("(= " + eq(a, b) + " (and (= (slen " + a + ") (slen " + b + ")) (forall ((qk Int)) (=> (and (<= 0 qk) (< qk (slen " + a + "))) (= (sat " + a + " qk) (sat " + b + " qk))))))")
		}
		switch x.Op {
		case token.EQL:
			fx.defReg(x, eq(a, b))
		case token.NEQ:
			fx.defReg(x, not(eq(a, b)))
		case token.ADD:
			fx.declareFun("sconcat", []string{"Str", "Str"}, "Str")
			r := fx.define(regName(x), "Str", "(sconcat "+a+" "+b+")")
			fx.assume("(= (slen " + r + ") (+ (slen " + a + ") (slen " + b + ")))")
			fx.regs[x] = Val{T: x.Type(), S: r}
		case token.LSS, token.LEQ, token.GTR, token.GEQ:
			fx.declareFun("str_lt", []string{"Str", "Str"}, "Bool")
			lt := func(p, q string) string { return "(str_lt " + p + " " + q + ")" }
			switch x.Op {
			case token.LSS:
				fx.defReg(x, lt(a, b))
			case token.GTR:
				fx.defReg(x, lt(b, a))
			case token.LEQ:
				fx.defReg(x, not(lt(b, a)))
			case token.GEQ:
				fx.defReg(x, not(lt(a, b)))
			}
		default:
			fx.setReg(x, Val{S: fx.havoc("bop", fx.sortOf(x.Type()))})
		}
	case "F":
		op := map[token.Token]string{token.ADD: "f_add", token.SUB: "f_sub", token.MUL: "f_mul", token.QUO: "f_div"}[x.Op]
		if op != "" {
			fx.declareFun(op, []string{"F", "F"}, "F")
			fx.defReg(x, "("+op+" "+a+" "+b+")")
			return
		}
		switch x.Op {
		case token.EQL:
			// NaN != NaN: float equality is not term identity
			fx.declareFun("f_eq", []string{"F", "F"}, "Bool")
			fx.defReg(x, "(f_eq "+a+" "+b+")")
		case token.NEQ:
			fx.declareFun("f_eq", []string{"F", "F"}, "Bool")
			fx.defReg(x, "(not (f_eq "+a+" "+b+"))")
		case token.LSS, token.GTR, token.LEQ, token.GEQ:
			fx.declareFun("f_lt", []string{"F", "F"}, "Bool")
			fx.declareFun("f_le", []string{"F", "F"}, "Bool")
			switch x.Op {
			case token.LSS:
				fx.defReg(x, "(f_lt "+a+" "+b+")")
			case token.GTR:
				fx.defReg(x, "(f_lt "+b+" "+a+")")
			case token.LEQ:
				fx.defReg(x, "(f_le "+a+" "+b+")")
			case token.GEQ:
				fx.defReg(x, "(f_le "+b+" "+a+")")
			}
		default:
			fx.setReg(x, Val{S: fx.havoc("bop", fx.sortOf(x.Type()))})
		}
	default:
		// == / != on two interface values panics when both hold the same uncomparable dynamic type
		// (slice, map, func): "runtime error: comparing uncomparable type"
		if xs == "Iface" && (x.Op == token.EQL || x.Op == token.NEQ) && !isNilConst(x.X) && !isNilConst(x.Y) {
			fx.tagOf(types.Typ[types.Int]) // make sure the hashable facts are declared
			fx.declareFun("uf_cmpSafe", []string{"Iface"}, "Bool")
			fx.oblige("cmp", "(or (distinct (i.tag "+a+") (i.tag "+b+")) (hashable (i.tag "+a+")) (uf_cmpSafe "+a+") (uf_cmpSafe "+b+"))", x, "interface values compared with == hold comparable dynamic types (runtime error: comparing uncomparable type)")
		}
		switch x.Op {
		case token.EQL:
			fx.defReg(x, eq(a, b))
		case token.NEQ:
			fx.defReg(x, not(eq(a, b)))
		default:
			fx.setReg(x, Val{S: fx.havoc("bop", fx.sortOf(x.Type()))})
		}
	}
}

func isNilConst(v ssa.Value) bool {
	c, ok := v.(*ssa.Const)
	return ok && c.Value == nil
}

func (fx *FnExec) binOpInt(x *ssa.BinOp, a, b string) {
	rt := x.Type()
	arith := func(op string) {
		t := "(" + op + " " + a + " " + b + ")"
		lo, hi, ok := intRange(rt)
		if fx.checked && ok {
			fx.oblige("ovf", "(and (<= "+lo+" "+t+") (<= "+t+" "+hi+"))", x, "integer overflow")
			fx.defReg(x, t)
			return
		}
		if ok && isUnsigned(rt) {
			// unsigned arithmetic wraps (defined behaviour relied upon by hash code)
			fx.defReg(x, "(mod "+t+" (+ "+hi+" 1))")
			return
		}
		fx.defReg(x, t)
	}
	switch x.Op {
	case token.ADD:
		arith("+")
	case token.SUB:
		arith("-")
	case token.MUL:
		arith("*")
	case token.QUO:
		fx.oblige("div", "(distinct "+b+" 0)", x, "integer division by zero")
		fx.defReg(x, "(tdiv "+a+" "+b+")")
	case token.REM:
		fx.oblige("div", "(distinct "+b+" 0)", x, "integer modulo by zero")
		fx.defReg(x, "(tmod "+a+" "+b+")")
	case token.EQL:
		fx.defReg(x, eq(a, b))
	case token.NEQ:
		fx.defReg(x, not(eq(a, b)))
	case token.LSS:
		fx.defReg(x, "(< "+a+" "+b+")")
	case token.LEQ:
		fx.defReg(x, "(<= "+a+" "+b+")")
	case token.GTR:
		fx.defReg(x, "(> "+a+" "+b+")")
	case token.GEQ:
		fx.defReg(x, "(>= "+a+" "+b+")")
	case token.SHL:
		if c, ok := x.Y.(*ssa.Const); ok && c.Value != nil && c.Int64() < 63 {
			t := fmt.Sprintf("(* %s %d)", a, int64(1)<<uint(c.Int64()))
			if lo, hi, ok := intRange(rt); ok {
				_ = lo
				if isUnsigned(rt) {
					t = "(mod " + t + " (+ " + hi + " 1))"
				}
			}
			fx.defReg(x, t)
			return
		}
		fx.bitOp(x, "bv_shl", a, b)
	case token.SHR:
		if c, ok := x.Y.(*ssa.Const); ok && c.Value != nil && c.Int64() < 63 {
			fx.defReg(x, fmt.Sprintf("(div %s %d)", a, int64(1)<<uint(c.Int64())))
			return
		}
		fx.bitOp(x, "bv_shr", a, b)
	case token.AND:
		fx.bitOp(x, "bv_and", a, b)
		// 0 <= a & m <= m for a non-negative constant mask
		if c, ok := x.Y.(*ssa.Const); ok && c.Value != nil && c.Int64() >= 0 {
			fx.assume(fmt.Sprintf("(and (<= 0 %s) (<= %s %d))", fx.regs[x].S, fx.regs[x].S, c.Int64()))
		}
	case token.OR:
		fx.bitOp(x, "bv_or", a, b)
	case token.XOR:
		fx.bitOp(x, "bv_xor", a, b)
	case token.AND_NOT:
		fx.bitOp(x, "bv_andnot", a, b)
	default:
		fx.setReg(x, Val{S: fx.havoc("bop", "Int")})
	}
}

func isUnsigned(t types.Type) bool {
	b, ok := t.Underlying().(*types.Basic)
	return ok && b.Info()&types.IsUnsigned != 0
}

func (fx *FnExec) bitOp(x *ssa.BinOp, name, a, b string) {
	fx.declareFun(name, []string{"Int", "Int"}, "Int")
	n := fx.define(regName(x), "Int", "("+name+" "+a+" "+b+")")
	fx.regs[x] = Val{T: x.Type(), S: n}
	fx.assume(fx.typeInvariant(x.Type(), n))
}

func (fx *FnExec) execSlice(x *ssa.Slice) {
	base := fx.val(x.X)
	var lo, hi, mx string
	if x.Low != nil {
		lo = fx.term(fx.val(x.Low))
	} else {
		lo = "0"
	}
	switch t := x.X.Type().Underlying().(type) {
	case *types.Slice:
		s := fx.term(base)
		if x.High != nil {
			hi = fx.term(fx.val(x.High))
		} else {
			hi = "(s.len " + s + ")"
		}
		if x.Max != nil {
			mx = fx.term(fx.val(x.Max))
		} else {
			mx = "(s.cap " + s + ")"
		}
		if !(x.Low == nil && x.High == nil && x.Max == nil) {
			fx.oblige("slice", "(and (<= 0 "+lo+") (<= "+lo+" "+hi+") (<= "+hi+" "+mx+") (<= "+mx+" (s.cap "+s+")))", x, "slice bounds in range")
		}
		fx.defReg(x, "(mk-slice (s.arr "+s+") (+ (s.off "+s+") "+lo+") (- "+hi+" "+lo+") (- "+mx+" "+lo+"))")
	case *types.Basic: // string
		s := fx.term(base)
		if x.High != nil {
			hi = fx.term(fx.val(x.High))
		} else {
			hi = "(slen " + s + ")"
		}
		fx.oblige("slice", "(and (<= 0 "+lo+") (<= "+lo+" "+hi+") (<= "+hi+" (slen "+s+")))", x, "string slice bounds in range")
		fx.declareFun("substr", []string{"Str", "Int", "Int"}, "Str")
		r := fx.define(regName(x), "Str", "(substr "+s+" "+lo+" "+hi+")")
		fx.regs[x] = Val{T: x.Type(), S: r}
		fx.assume("(= (slen " + r + ") (- " + hi + " " + lo + "))")
		fx.W.noteSubstr(fx, r, s, lo, hi)
	case *types.Pointer: // *array
		arr := t.Elem().Underlying().(*types.Array)
		pl := fx.placeOf(base)
		n := fmt.Sprintf("%d", arr.Len())
		if x.High != nil {
			hi = fx.term(fx.val(x.High))
		} else {
			hi = n
		}
		if x.Max != nil {
			mx = fx.term(fx.val(x.Max))
		} else {
			mx = n
		}
		if !(x.Low == nil && x.High == nil && x.Max == nil) {
			fx.oblige("slice", "(and (<= 0 "+lo+") (<= "+lo+" "+hi+") (<= "+hi+" "+mx+") (<= "+mx+" "+n+"))", x, "array slice bounds in range")
		}
		aref := pl.Arr
		if pl.Kind != PArr {
			aref = fx.term(base)
		}
		fx.defReg(x, "(mk-slice "+aref+" "+lo+" (- "+hi+" "+lo+") (- "+mx+" "+lo+"))")
	default:
		fx.setReg(x, Val{S: fx.havoc("slice", fx.sortOf(x.Type()))})
	}
}

func (w *World) noteSubstr(fx *FnExec, r, s, lo, hi string) {
	// pointwise content axiom, quantified; only emitted when string content reasoning is enabled
	if fx.C != nil && fx.C.StringContent {
		fx.assume("(forall ((qi Int)) (! (=> (and (<= 0 qi) (< qi (- " + hi + " " + lo + "))) (= (sat " + r + " qi) (sat " + s + " (+ " + lo + " qi)))) :pattern ((sat " + r + " qi))))")
	}
}

func (w *World) noteClosure(fx *FnExec, x *ssa.MakeClosure, ref string) {}

func (fx *FnExec) box(t types.Type, term string) string {
	s := fx.sortOf(t)
	switch s {
	case "Int":
		return term
	case "Bool":
		return ite(term, "1", "0")
	}
	id := sortID(s)
	fx.declareFun("box_"+id, []string{s}, "Int")
	fx.declareFun("unbox_"+id, []string{"Int"}, s)
	fx.assumeGlobal("(= (unbox_" + id + " (box_" + id + " " + term + ")) " + term + ")")
	return "(box_" + id + " " + term + ")"
}

func (fx *FnExec) unbox(t types.Type, pay string) string {
	s := fx.sortOf(t)
	switch s {
	case "Int":
		return pay
	case "Bool":
		return "(distinct " + pay + " 0)"
	}
	id := sortID(s)
	fx.declareFun("box_"+id, []string{s}, "Int")
	fx.declareFun("unbox_"+id, []string{"Int"}, s)
	return "(unbox_" + id + " " + pay + ")"
}

func (fx *FnExec) execMakeInterface(x *ssa.MakeInterface) {
	v := fx.val(x.X)
	tag := fx.tagOf(x.X.Type())
	pay := fx.box(x.X.Type(), fx.term(v))
	fx.defReg(x, fmt.Sprintf("(mk-iface %d %s)", tag, pay))
	// boxing a slice whose backing array this activation created (or an empty one): recorded for
	// the contracts of functions that write through a boxed slice (sort.Slice, ...)
	if _, isSlice := x.X.Type().Underlying().(*types.Slice); isSlice {
		fx.declareFun("uf_freshBoxed", []string{"Iface"}, "Bool")
		sv := fx.term(v)
		fx.assume("(=> (or (> (s.arr " + sv + ") " + fx.allocBase() + ") (= (s.len " + sv + ") 0)) (uf_freshBoxed " + fx.regs[x].S + "))")
	}
}

func (fx *FnExec) execTypeAssert(x *ssa.TypeAssert) {
	v := fx.term(fx.val(x.X))
	var ok, res string
	if _, isIface := x.AssertedType.Underlying().(*types.Interface); isIface {
		fn := "implements_" + sanitize(types.TypeString(x.AssertedType, func(p *types.Package) string { return p.Name() }))
		fx.declareFun(fn, []string{"Int"}, "Bool")
		fx.noteIfacePred(fn, x.AssertedType)
		ok = "(and (distinct (i.tag " + v + ") 0) (" + fn + " (i.tag " + v + ")))"
		// asserting to an interface that the static type already satisfies
		if types.AssignableTo(x.X.Type(), x.AssertedType) {
			ok = "(distinct (i.tag " + v + ") 0)"
		}
		res = v
	} else {
		tag := fx.tagOf(x.AssertedType)
		ok = fmt.Sprintf("(= (i.tag %s) %d)", v, tag)
		res = fx.unbox(x.AssertedType, "(i.pay "+v+")")
		// the payload of an interface of dynamic type T is the box of a T value: boxing what was
		// unboxed gives the payload back (so re-boxing the asserted value yields the same interface)
		if bs := fx.sortOf(x.AssertedType); bs != "Int" && bs != "Bool" {
			fx.assume("(=> " + ok + " (= " + fx.box(x.AssertedType, res) + " (i.pay " + v + ")))")
		}
	}
	if x.CommaOk {
		okn := fx.define(regName(x)+"_ok", "Bool", ok)
		rn := fx.define(regName(x)+"_v", fx.sortOf(x.AssertedType), ite(okn, res, fx.zero(x.AssertedType)))
		if inv := fx.typeInvariant(x.AssertedType, rn); inv != "true" {
			fx.assume(inv)
		}
		fx.regs[x] = Val{T: x.Type(), Tup: []Val{{T: x.AssertedType, S: rn}, {T: types.Typ[types.Bool], S: okn}}}
		return
	}
	fx.oblige("assert", ok, x, "type assertion cannot fail")
	rn := fx.define(regName(x), fx.sortOf(x.AssertedType), res)
	if inv := fx.typeInvariant(x.AssertedType, rn); inv != "true" {
		fx.assume(inv)
	}
	fx.regs[x] = Val{T: x.Type(), S: rn}
}

func (fx *FnExec) execConvert(x *ssa.Convert) {
	v := fx.val(x.X)
	if v.P != nil && v.P.Kind == PStrByte {
		// *byte <-> unsafe.Pointer conversions keep the string-data place
		nv := v
		nv.T = x.Type()
		fx.regs[x] = nv
		return
	}
	from, to := fx.sortOf(x.X.Type()), fx.sortOf(x.Type())
	a := fx.term(v)
	switch {
	case from == "Int" && to == "Int":
		lo, hi, ok := intRange(x.Type())
		flo, fhi, fok := intRange(x.X.Type())
		if !ok || !fok {
			fx.defReg(x, a) // pointers/unsafe
			return
		}
		if rangeWithin(flo, fhi, lo, hi) {
			fx.defReg(x, a)
			return
		}
		if fx.checked {
			fx.oblige("conv", "(and (<= "+lo+" "+a+") (<= "+a+" "+hi+"))", x, "integer conversion loses value")
			fx.defReg(x, a)
			return
		}
		// wraparound
		width := "(+ (- " + hi + " " + lo + ") 1)"
		fx.defReg(x, "(+ (mod (- "+a+" "+lo+") "+width+") "+lo+")")
	case from == "Int" && to == "F":
		fx.declareFun("i2f", []string{"Int"}, "F")
		fx.defReg(x, "(i2f "+a+")")
	case from == "F" && to == "Int":
		fx.declareFun("f2i", []string{"F"}, "Int")
		n := fx.define(regName(x), "Int", "(f2i "+a+")")
		fx.regs[x] = Val{T: x.Type(), S: n}
		fx.assume(fx.typeInvariant(x.Type(), n))
	case from == "F" && to == "F":
		fx.defReg(x, a)
	case from == "Str" && to == "Slice":
		// []byte(s) / []rune(s): fresh backing array
		ar := fx.freshRef("conv")
		et := x.Type().Underlying().(*types.Slice).Elem()
		var ln string
		if b, ok := et.Underlying().(*types.Basic); ok && b.Kind() == types.Int32 {
			fx.declareFun("runecount", []string{"Str"}, "Int")
			ln = "(runecount " + a + ")"
			fx.assume("(and (<= 0 " + ln + ") (<= " + ln + " (slen " + a + ")) (= (= " + ln + " 0) (= (slen " + a + ") 0)))")
			fx.declareFun("runes_of", []string{"Str"}, "(Array Int Int)")
			name, sort := fx.elemHeap(et)
			fx.setHeap(name, sort, "(store "+fx.heapArr(name, sort)+" "+ar+" (runes_of "+a+"))")
		} else {
			ln = "(slen " + a + ")"
			fx.declareFun("bytes_of", []string{"Str"}, "(Array Int Int)")
			name, sort := fx.elemHeap(et)
			fx.setHeap(name, sort, "(store "+fx.heapArr(name, sort)+" "+ar+" (bytes_of "+a+"))")
		}
		fx.defReg(x, "(mk-slice "+ar+" 0 "+ln+" "+ln+")")
	case from == "Slice" && to == "Str":
		et := x.X.Type().Underlying().(*types.Slice).Elem()
		name, sort := fx.elemHeap(et)
		h := fx.heapArr(name, sort)
		if b, ok := et.Underlying().(*types.Basic); ok && b.Kind() == types.Int32 {
			fx.declareFun("str_of_runes", []string{"(Array Int Int)", "Int", "Int"}, "Str")
			r := fx.define(regName(x), "Str", "(str_of_runes (select "+h+" (s.arr "+a+")) (s.off "+a+") (s.len "+a+"))")
			fx.regs[x] = Val{T: x.Type(), S: r}
			fx.assume("(and (>= (slen " + r + ") (s.len " + a + ")) (= (= (slen " + r + ") 0) (= (s.len " + a + ") 0)))")
		} else {
			fx.declareFun("str_of_bytes", []string{"(Array Int Int)", "Int", "Int"}, "Str")
			r := fx.define(regName(x), "Str", "(str_of_bytes (select "+h+" (s.arr "+a+")) (s.off "+a+") (s.len "+a+"))")
			fx.regs[x] = Val{T: x.Type(), S: r}
			fx.assume("(= (slen " + r + ") (s.len " + a + "))")
		}
	case from == "Int" && to == "Str":
		fx.declareFun("str_of_rune", []string{"Int"}, "Str")
		r := fx.define(regName(x), "Str", "(str_of_rune "+a+")")
		fx.regs[x] = Val{T: x.Type(), S: r}
		fx.assume("(and (<= 1 (slen " + r + ")) (<= (slen " + r + ") 4))")
	default:
		if from == to {
			fx.defReg(x, a)
			return
		}
		fx.setReg(x, Val{S: fx.havoc("conv", to)})
	}
}

func rangeWithin(flo, fhi, lo, hi string) bool {
	return cmpBig(lo, flo) <= 0 && cmpBig(fhi, hi) <= 0
}

func parseSmtInt(s string) (neg bool, digits string) {
	s = strings.TrimSpace(s)
	if strings.HasPrefix(s, "(- ") {
		return true, strings.TrimSuffix(strings.TrimPrefix(s, "(- "), ")")
	}
	return false, s
}

func cmpBig(a, b string) int {
	an, ad := parseSmtInt(a)
	bn, bd := parseSmtInt(b)
	if ad == "0" {
		an = false
	}
	if bd == "0" {
		bn = false
	}
	if an != bn {
		if an {
			return -1
		}
		return 1
	}
	c := 0
	if len(ad) != len(bd) {
		if len(ad) < len(bd) {
			c = -1
		} else {
			c = 1
		}
	} else {
		c = strings.Compare(ad, bd)
	}
	if an {
		return -c
	}
	return c
}

func (fx *FnExec) execNext(x *ssa.Next) {
	rng := x.Iter.(*ssa.Range)
	if li := fx.loopHead[x.Block().Index]; li != nil && li.clears != nil {
		// summarised clearing loop: iteration is over
		tup := x.Type().(*types.Tuple)
		fx.regs[x] = Val{T: x.Type(), Tup: []Val{{T: types.Typ[types.Bool], S: "false"},
			{T: tup.At(1).Type(), S: fx.zero(tup.At(1).Type())}, {T: tup.At(2).Type(), S: fx.zero(tup.At(2).Type())}}}
		return
	}
	ok := fx.havoc(regName(x)+"_ok", "Bool")
	tup := x.Type().(*types.Tuple)
	if x.IsString {
		s := fx.term(fx.val(rng.X))
		k := fx.havoc(regName(x)+"_k", "Int")
		v := fx.havoc(regName(x)+"_r", "Int")
		fx.assume(implies(ok, "(and (<= 0 "+k+") (< "+k+" (slen "+s+")) (<= 0 "+v+") (<= "+v+" 1114111))"))
		fx.assume(implies(ok, "(=> (< (sat "+s+" "+k+") 128) (= "+v+" (sat "+s+" "+k+")))"))
		fx.assume(implies(and(ok, "(>= (sat "+s+" "+k+") 128)"), "(>= "+v+" 128)"))
		fx.regs[x] = Val{T: x.Type(), Tup: []Val{{T: types.Typ[types.Bool], S: ok}, {T: types.Typ[types.Int], S: k}, {T: types.Typ[types.Rune], S: v}}}
		return
	}
	mt := rng.X.Type().Underlying().(*types.Map)
	m := fx.term(fx.val(rng.X))
	kt, vt := tup.At(1).Type(), tup.At(2).Type()
	k := fx.havoc(regName(x)+"_k", fx.sortOf(mt.Key()))
	dom, val, _ := fx.mapHeaps(mt)
	fx.assume(implies(ok, "(and (> "+m+" 0) (select (select "+dom+" "+m+") "+k+"))"))
	if inv := fx.typeInvariant(mt.Key(), k); inv != "true" {
		fx.assume(inv)
	}
	v := fx.loaded(mt.Elem(), "(select (select "+val+" "+m+") "+k+")")
	_ = kt
	_ = vt
	fx.regs[x] = Val{T: x.Type(), Tup: []Val{{T: types.Typ[types.Bool], S: ok}, {T: mt.Key(), S: k}, {T: mt.Elem(), S: v}}}
}

func (fx *FnExec) execReturn(x *ssa.Return) {
	if fx.inlRets != nil {
		fx.inlineReturn(x)
		return
	}
	var vals []Val
	for _, r := range x.Results {
		v := fx.val(r)
		vals = append(vals, Val{T: r.Type(), S: fx.term(v)})
	}
	if fx.onReturn != nil {
		fx.onReturn(fx, x, vals)
	}
	if fx.recordBranches {
		fx.returns = append(fx.returns, retRec{in: x, pc: fx.cur.pc, vals: vals})
	}
	if fx.C != nil && fx.C.Fresh && !fx.C.Assumed && len(vals) > 0 {
		o := fx.oblige("fresh", "(> "+vals[0].S+" "+fx.allocBase()+")", x, "result is an object allocated (or taken from a pool) by this activation")
		o.Props = fx.C.Props
	}
	if fx.C != nil && !fx.C.Assumed {
		envg := &evalEnv{fx: fx, heap: fx.cur.heap, oldHeap: fx.heap0, rets: vals}
		for _, gname := range sortedKeys(fx.C.GhostSet) {
			if fx.C.GhostAssign[gname] {
				continue // ghost code: the function itself assigns the ghost as it returns
			}
			if g := fx.W.Contracts.ghost(gname); g != nil {
				gs := fx.C.GhostSet[gname]
				t, err := fx.evalC(gs.ast, envg)
				if err != nil {
					fx.outside = append(fx.outside, fmt.Sprintf("ghostset %s: %v", gname, err))
					continue
				}
				o := fx.oblige("post", eq(fx.cur.gh[gname], t.S), x, "ghost "+gname+" has the value the contract announces to callers: "+gs.Text)
				o.Props = gs.Props
			}
		}
	}
	if fx.C != nil {
		env := &evalEnv{fx: fx, heap: fx.cur.heap, oldHeap: fx.heap0, rets: vals}
		for k, e := range fx.C.Ensures {
			t, err := fx.evalContract(e, env)
			if err != nil {
				fx.outside = append(fx.outside, fmt.Sprintf("ensures %q: %v", e.Text, err))
				continue
			}
			o := fx.oblige("post", t, x, fmt.Sprintf("ensures #%d: %s", k+1, e.Text))
			o.Props = e.Props
			o.Extra = map[string]string{"ensures": fmt.Sprint(k + 1)}
		}
	}
}

// localOnly: the value is nil or an object allocated by this activation on every path
// (coinductive over phis).
func localOnly(v ssa.Value, seen map[ssa.Value]bool) bool {
	if seen[v] {
		return true
	}
	seen[v] = true
	switch x := v.(type) {
	case *ssa.Const:
		return x.Value == nil // nil
	case *ssa.MakeSlice, *ssa.MakeMap, *ssa.Alloc:
		return true
	case *ssa.Slice:
		return localOnly(x.X, seen)
	case *ssa.Phi:
		for _, e := range x.Edges {
			if !localOnly(e, seen) {
				return false
			}
		}
		return true
	case *ssa.Call:
		if b, ok := x.Call.Value.(*ssa.Builtin); ok && b.Name() == "append" {
			return localOnly(x.Call.Args[0], seen)
		}
	case *ssa.Convert:
		if _, ok := x.Type().Underlying().(*types.Slice); ok {
			if b, ok := x.X.Type().Underlying().(*types.Basic); ok && b.Info()&types.IsString != 0 {
				return true
			}
		}
	}
	return false
}

// escapes: the reference held by v may become known outside this activation (passed to a call,
// stored, boxed, merged or returned). Uses as the map/slice operand of reads and updates do not
// let it escape.
func escapes(v ssa.Value) bool {
	refs := v.Referrers()
	if refs == nil {
		return true
	}
	for _, r := range *refs {
		switch u := r.(type) {
		case *ssa.MapUpdate:
			if u.Key == v || u.Value == v {
				return true
			}
		case *ssa.Lookup:
			if u.Index == v {
				return true
			}
		case *ssa.Range, *ssa.DebugRef:
		case *ssa.Call:
			b, ok := u.Call.Value.(*ssa.Builtin)
			if !ok {
				return true
			}
			switch b.Name() {
			case "len", "cap":
			case "delete":
				if len(u.Call.Args) > 1 && u.Call.Args[1] == v {
					return true
				}
			default:
				return true
			}
		default:
			return true
		}
	}
	return false
}

// sameMapExpr: the two values denote the same map: identical SSA values, or loads of the same
// field of the same object (the loop body re-reads `x.m`; the loop itself does not assign it).
func sameMapExpr(a, b ssa.Value) bool {
	if a == b {
		return true
	}
	ua, ok1 := a.(*ssa.UnOp)
	ub, ok2 := b.(*ssa.UnOp)
	if !ok1 || !ok2 || ua.Op != token.MUL || ub.Op != token.MUL {
		return false
	}
	fa, ok1 := ua.X.(*ssa.FieldAddr)
	fb, ok2 := ub.X.(*ssa.FieldAddr)
	return ok1 && ok2 && fa.X == fb.X && fa.Field == fb.Field
}

// ghostEntry returns the symbol holding the value of a contract ghost at function entry,
// declaring it on first use.
func (fx *FnExec) ghostEntry(name string) string {
	if v, ok := fx.entryGh[name]; ok {
		return v
	}
	g := fx.W.Contracts.ghost(name)
	if g == nil {
		return ""
	}
	n := fx.havoc("gh_"+name, g.Sort)
	if g.Init != "" {
		fx.assumeGlobal("(= " + n + " " + g.Init + ")")
	}
	fx.entryGh[name] = n
	return n
}

// ghostVal returns the current value of a contract ghost.
func (fx *FnExec) ghostVal(gh map[string]string, name string) (string, bool) {
	if v, ok := gh[name]; ok {
		return v, true
	}
	if fx.W.Contracts.ghost(name) == nil {
		return "", false
	}
	v := fx.ghostEntry(name)
	gh[name] = v
	return v, true
}

// Whether a concrete type has the methods of an interface is a fact of the type system: for every
// dynamic type the function at hand speaks about (its tag was stated) and every interface it asserts
// to, the uninterpreted predicate implements_<I>(tag) is given its value.
func (fx *FnExec) noteIfacePred(fn string, it types.Type) {
	if fx.ifacePreds == nil {
		fx.ifacePreds = map[string]types.Type{}
	}
	if _, ok := fx.ifacePreds[fn]; ok {
		return
	}
	fx.ifacePreds[fn] = it
	for _, id := range fx.tagsStated {
		fx.stateImplements(fn, it, id, fx.W.tagTypes[id-1])
	}
}

func (fx *FnExec) stateImplements(fn string, it types.Type, id int, t types.Type) {
	iface, ok := it.Underlying().(*types.Interface)
	if !ok {
		return
	}
	if _, isIface := t.Underlying().(*types.Interface); isIface {
		return
	}
	if types.Implements(t, iface) {
		fx.assumeGlobal(fmt.Sprintf("(%s %d)", fn, id))
	} else {
		fx.assumeGlobal(fmt.Sprintf("(not (%s %d))", fn, id))
	}
}
