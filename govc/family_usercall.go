package main

// Code of the application runs inside a render in two places: a method of a context value that a
// template names (reflect.Value.Call) and the String method of a value that is printed
// (fmt.Stringer). Either can panic, and so can the wrapper Go generates for a method that is promoted
// through a nil embedded pointer or interface, for a value that is a perfectly ordinary struct. The
// model has no "this callee may panic" (callees are assumed to return); what it can demand is the
// shape that makes such a panic harmless: every such call stands in a function that defers a closure
// calling recover. (C05: no context value makes the engine panic.)

import (
	"fmt"

	"golang.org/x/tools/go/ssa"
)

func init() {
	families["C05"] = append(families["C05"], userCallFamily)
}

func recoversPanics(fn *ssa.Function) bool {
	for _, b := range fn.Blocks {
		for _, in := range b.Instrs {
			d, ok := in.(*ssa.Defer)
			if !ok {
				continue
			}
			var cl *ssa.Function
			switch v := d.Call.Value.(type) {
			case *ssa.MakeClosure:
				cl, _ = v.Fn.(*ssa.Function)
			case *ssa.Function:
				cl = v
			}
			if cl == nil {
				continue
			}
			// the closure calls recover and never panics itself (a closure that passes some panics on -
			// "only runtime errors are ours" - lets a panic of reflect's own, a plain string, through)
			rec, repanic := false, false
			for _, cb := range cl.Blocks {
				for _, ci := range cb.Instrs {
					switch c := ci.(type) {
					case *ssa.Call:
						if bi, ok := c.Call.Value.(*ssa.Builtin); ok && bi.Name() == "recover" {
							rec = true
						}
					case *ssa.Panic:
						repanic = true
					}
				}
			}
			if rec && !repanic {
				return true
			}
		}
	}
	return false
}

func userCallFamily(w *World, prop string) ([]*Obligation, []string) {
	var out []*Obligation
	n := 0
	for _, name := range sortedKeys(w.Funcs) {
		fn := w.Funcs[name]
		k := 0
		for _, b := range fn.Blocks {
			for _, in := range b.Instrs {
				c, ok := in.(ssa.CallInstruction)
				if !ok {
					continue
				}
				cc := c.Common()
				what := ""
				if sc := cc.StaticCallee(); sc != nil && sc.String() == "(reflect.Value).Call" {
					what = "reflect.Value.Call (a method of a context value)"
				} else if cc.IsInvoke() && cc.Method.Name() == "String" && namedTypeName(cc.Value.Type()) == "fmt.Stringer" {
					what = "the String method of a value"
				}
				if what == "" {
					continue
				}
				k++
				n++
				pos, src := w.posAndSrc(in)
				o := &Obligation{Name: fmt.Sprintf("%s/usercall#%d", name, k), Kind: "usercall", Func: name, Pos: pos, Src: src, PC: "true", Props: []string{prop}, Goal: "called under recover",
					Comment: what + " is called in a function that recovers every panic: a panic in code of the application (or in the wrapper of a method promoted through a nil embedded pointer or interface) is not a panic of the render"}
				if recoversPanics(fn) {
					o.Custom = "(set-logic ALL)(assert false)"
				} else {
					o.Custom = "(set-logic ALL)(assert true)"
				}
				out = append(out, o)
			}
		}
	}
	return out, []string{fmt.Sprintf("calls into code of the application (reflect Call, Stringer) examined: %d", n)}
}
