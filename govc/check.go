package main

// `govc check <Cxx>`: decide one property.

import (
	"fmt"
	"os"
	"os/exec"
	"path/filepath"
	"sort"
	"strconv"
	"strings"
	"sync"
	"sync/atomic"
	"time"

	"golang.org/x/tools/go/ssa"
)

// A family produces extra obligations for a property (F6, F7, F8, ...).
type familyFn func(w *World, prop string) ([]*Obligation, []string)

var families = map[string][]familyFn{}

func hasProp(ps []string, p string) bool {
	for _, x := range ps {
		if x == p {
			return true
		}
	}
	return false
}

type fnResult struct {
	name    string
	fx      *FnExec
	obls    []*Obligation
	err     error
	reachOK bool
}

// callsRequiring: fn statically calls a function of the package whose contract has a precondition
// tagged with prop explicitly (requires[Cxx]).
func callsRequiring(w *World, fn *ssa.Function, prop string) bool {
	for _, b := range fn.Blocks {
		for _, in := range b.Instrs {
			c, ok := in.(ssa.CallInstruction)
			if !ok {
				continue
			}
			sc := c.Common().StaticCallee()
			if sc == nil || sc.Pkg != w.Pkg {
				continue
			}
			if ct := w.Contracts.ByName[displayName(sc)]; ct != nil {
				for _, r := range ct.Requires {
					if r.Tagged && !r.Global && hasProp(r.Props, prop) {
						return true
					}
				}
			}
		}
	}
	return false
}

// ensuresFor: the contract has a postcondition claimed for prop.
func ensuresFor(ct *Contract, prop string) bool {
	for _, e := range ct.Ensures {
		if hasProp(e.Props, prop) {
			return true
		}
	}
	return false
}

func cmdCheck(w *World, args []string, tier string, verbose bool) int {
	if len(args) != 1 {
		fmt.Fprintln(os.Stderr, "usage: govc check <Cxx> [--tier quick|thorough]")
		return 2
	}
	prop := args[0]
	deriveMeasures = prop == "C05"
	start := time.Now()
	timeout := 10
	if tier == "thorough" {
		timeout = 60
	}
	seed, _ := strconv.Atoi(os.Getenv("VERIF_SEED"))

	known, err := loadKnownFindings(filepath.Join(verifDir, "known_findings.jsonl"))
	if err != nil {
		fmt.Fprintln(os.Stderr, err)
		return 2
	}
	undecided, err := loadUndecided(filepath.Join(verifDir, "undecided.txt"))
	if err != nil {
		fmt.Fprintln(os.Stderr, err)
		return 2
	}

	var claimed []*Obligation
	var allObls []*Obligation
	var problems []string // lost contracts, translation failures: each is a violation (cannot decide)
	var funcsUnder []string
	var outside []string
	usedContracts := map[string]bool{}
	var results []*fnResult
	var inlinedHelpers []string // helpers the contracts do not know: executed in place in their callers (inline.go)
	_ = inlinedHelpers

	for _, ct := range w.Contracts.Order {
		// "impl" contracts are checked against the body but not used at call sites (callers see the
		// abstract "func" contract of the same function)
		if !(ct.Kind == "func" || ct.Kind == "impl") || ct.Assumed {
			continue
		}
		relevant := hasProp(ct.Props, prop)
		for _, cl := range [][]*CExpr{ct.Requires, ct.Ensures} {
			for _, e := range cl {
				if hasProp(e.Props, prop) {
					relevant = true
				}
			}
		}
		for _, invs := range ct.LoopInv {
			for _, e := range invs {
				if hasProp(e.Props, prop) {
					relevant = true
				}
			}
		}
		for _, steps := range ct.LoopStep {
			for _, e := range steps {
				if hasProp(e.Props, prop) {
					relevant = true
				}
			}
		}
		for _, es := range ct.LoopEntry {
			for _, e := range es {
				if hasProp(e.Props, prop) {
					relevant = true
				}
			}
		}
		for _, ac := range ct.AtCall {
			if hasProp(ac.Expr.Props, prop) {
				relevant = true
			}
		}
		if !relevant {
			// a caller owes the preconditions its callees claim for this property
			if f := w.Funcs[ct.Name]; f != nil && callsRequiring(w, f, prop) {
				relevant = true
			}
		}
		if !relevant {
			continue
		}
		fn := w.Funcs[ct.Name]
		if fn == nil {
			problems = append(problems, fmt.Sprintf("lost-contract/%s: function named in the contract file no longer exists", ct.Name))
			continue
		}
		if groupOnly(ct) && w.inlinedEverywhere(fn) {
			inlinedHelpers = append(inlinedHelpers, ct.Name)
			continue
		}
		fx := newFnExec(w, fn, ct)
		obls, err := fx.Run()
		if ct.Kind == "impl" {
			for _, o := range obls {
				o.Name = strings.Replace(o.Name, ct.Name+"/", ct.Name+"/impl-", 1)
			}
		}
		r := &fnResult{name: ct.Name, fx: fx, obls: obls, err: err}
		results = append(results, r)
		if err != nil {
			problems = append(problems, fmt.Sprintf("translation/%s: %v", ct.Name, err))
			continue
		}
		funcsUnder = append(funcsUnder, ct.Name)
		for _, o := range fx.outside {
			outside = append(outside, ct.Name+": "+o)
			problems = append(problems, fmt.Sprintf("translation/%s: %s", ct.Name, o))
		}
		for _, n := range fx.notes {
			if strings.HasPrefix(n, "uses:") {
				usedContracts[n[5:]] = true
			}
		}
		for _, o := range obls {
			if safetyKinds[o.Kind] {
				if prop == "C05" && hasProp(ct.Props, "C05") {
					o.Props = []string{"C05"}
				} else if o.Kind == "ovf" && ensuresFor(ct, prop) {
					// a postcondition speaks about mathematical integers: it describes what the machine
					// computes only when no operation of the function wraps around
					o.Props = []string{prop}
				} else {
					continue
				}
			} else if !hasProp(o.Props, prop) {
				continue
			}
			allObls = append(allObls, o)
		}
	}
	// extra families
	var famNotes []string
	for _, f := range families[prop] {
		obls, notes := f(w, prop)
		allObls = append(allObls, obls...)
		famNotes = append(famNotes, notes...)
	}

	// vacuity guard: every function's precondition (and entry state) must be satisfiable
	vacuity := 0
	{
		type vq struct {
			name, query, what string
		}
		var qs []vq
		for _, r := range results {
			if r.err != nil || len(r.obls) == 0 {
				continue
			}
			o := r.obls[0]
			body := strings.Join(o.fx.lines[:o.prefix], "\n") + "\n"
			qs = append(qs, vq{r.name, o.fx.W.preludeFor(body) + body, "precondition and assumptions are contradictory"})
			// all assumptions made anywhere in the function (callee postconditions, invariants, model
			// facts) must be jointly satisfiable, otherwise later obligations are discharged vacuously
			bodyAll := strings.Join(o.fx.lines, "\n") + "\n"
			qs = append(qs, vq{r.name, o.fx.W.preludeFor(bodyAll) + bodyAll, "the assumptions collected while executing the function are contradictory"})
		}
		vacuity = len(qs)
		if os.Getenv("GOVC_TIMING") != "" {
			fmt.Fprintf(os.Stderr, "timing phases: generation %.1fs, %d vacuity queries\n", time.Since(start).Seconds(), len(qs))
		}
		verdicts := make([]Verdict, len(qs))
		var wg sync.WaitGroup
		sem := make(chan struct{}, 8)
		for i := range qs {
			wg.Add(1)
			sem <- struct{}{}
			go func(i int) {
				defer wg.Done()
				defer func() { <-sem }()
				verdicts[i] = runQuery(qs[i].query, 5, false).Verdict
			}(i)
		}
		wg.Wait()
		for i, q := range qs {
			if verdicts[i] == VUnsat {
				problems = append(problems, fmt.Sprintf("vacuity/%s: %s", q.name, q.what))
			}
		}
	}

	tDis := time.Now()
	dischargeAll(allObls, timeout, 16)
	if os.Getenv("GOVC_TIMING") != "" {
		fmt.Fprintf(os.Stderr, "timing phases: until discharge %.1fs, discharge %.1fs\n", tDis.Sub(start).Seconds(), time.Since(tDis).Seconds())
		byFn := map[string]float64{}
		for _, o := range allObls {
			if o.Answer != nil {
				byFn[o.Func] += o.Answer.Secs
			}
		}
		fns := sortedKeys(byFn)
		sort.Slice(fns, func(i, j int) bool { return byFn[fns[i]] > byFn[fns[j]] })
		for i, f := range fns {
			if i >= 15 {
				break
			}
			fmt.Fprintf(os.Stderr, "timing %8.1fs %s\n", byFn[f], f)
		}
	}

	// classify
	var violations []*Obligation
	var knownHit []string
	var undecidedHit []string
	discharged := 0
	for _, o := range allObls {
		key := prop + " " + o.Name
		if o.Answer.Verdict == VUnsat {
			if _, und := undecided[key]; und {
				// listed as undecided but discharges now: not claimed, noted
				undecidedHit = append(undecidedHit, o.Name+" (discharges now)")
				continue
			}
			claimed = append(claimed, o)
			discharged++
			continue
		}
		if _, und := undecided[key]; und {
			undecidedHit = append(undecidedHit, o.Name)
			continue
		}
		if kf := matchKnown(known, prop, o); kf != nil {
			knownHit = append(knownHit, o.Name)
			fmt.Printf("KNOWN-FINDING: property=%s %s [%s]\n", prop, kf.What, o.Name)
			continue
		}
		claimed = append(claimed, o)
		violations = append(violations, o)
	}

	// report
	replayDir := filepath.Join(verifDir, "replays")
	evidenceDir := filepath.Join(verifDir, "evidence")
	if repoDir != "/repo" {
		// runs against a scratch copy (mutation tests) must not overwrite the evidence of /repo
		replayDir = filepath.Join(os.TempDir(), "govc-alt", "replays")
		evidenceDir = filepath.Join(os.TempDir(), "govc-alt", "evidence")
	}
	exit := 0
	// a query every solver rejected as ill-formed is a defect of the generator, not of the code:
	// it is reported as such (exit status 2) and never as a violation of the property
	internal := 0
	kept := violations[:0]
	for _, o := range violations {
		if o.Answer != nil && o.Answer.Verdict == VUnknown && allSolversRejected(o.Answer.Output) {
			fmt.Printf("INTERNAL-ERROR property=%s obligation %s: the solvers rejected the generated query: %s\n", prop, o.Name, truncate(o.Answer.Output, 300))
			internal++
			continue
		}
		kept = append(kept, o)
	}
	violations = kept
	for _, o := range violations {
		path := filepath.Join(replayDir, prop+"-"+sanitize(o.Name)+".json")
		rp := buildReplay(w, prop, o)
		_ = writeJSON(path, rp)
		suffix := ""
		if !rp.Reproduced {
			suffix = " no-failing-input-found"
		}
		fmt.Printf("VIOLATION property=%s replay=%s%s\n", prop, path, suffix)
		fmt.Printf("  obligation %s (%s) at %s: %s\n", o.Name, o.Answer.Verdict, o.Pos, o.Comment)
		exit = 1
	}
	for i, p := range problems {
		path := filepath.Join(replayDir, fmt.Sprintf("%s-problem-%d.json", prop, i+1))
		_ = writeJSON(path, &Replay{Property: prop, Obligation: p, Kind: "machinery", Verdict: "undecidable", SolverOut: p, When: nowStamp(), ReplayKind: "none"})
		fmt.Printf("VIOLATION property=%s replay=%s no-failing-input-found\n", prop, path)
		fmt.Printf("  %s\n", p)
		exit = 1
	}
	if len(claimed) == 0 && exit == 0 {
		fmt.Printf("VIOLATION property=%s replay=%s no-failing-input-found\n", prop, filepath.Join(replayDir, prop+"-empty.json"))
		fmt.Println("  no obligations were generated for this property (vacuous run)")
		_ = writeJSON(filepath.Join(replayDir, prop+"-empty.json"), &Replay{Property: prop, Obligation: "vacuity/no-obligations", When: nowStamp()})
		exit = 1
	}

	// evidence
	samples := []any{}
	for i, o := range claimed {
		if i >= 5 {
			break
		}
		samples = append(samples, map[string]any{"obligation": o.Name, "kind": o.Kind, "at": o.Pos, "source": o.Src, "what": o.Comment,
			"goal_smt": truncate(o.Goal, 400), "verdict": o.Answer.Verdict.String(), "solver": o.Answer.Solver})
	}
	backends := map[string]int64{}
	solverStats.Range(func(k, v any) bool { backends[k.(string)] = atomic.LoadInt64(v.(*int64)); return true })
	var assumedList []string
	for _, ct := range w.Contracts.Order {
		if ct.Assumed && usedContracts[ct.Name] {
			var cl []string
			for _, e := range ct.Ensures {
				cl = append(cl, "ensures "+e.Text)
			}
			for _, e := range ct.Requires {
				cl = append(cl, "requires "+e.Text)
			}
			assumedList = append(assumedList, ct.Name+": "+strings.Join(cl, "; "))
		}
	}
	sort.Strings(assumedList)
	sort.Strings(funcsUnder)
	byKind := map[string]int{}
	for _, o := range claimed {
		byKind[o.Kind]++
	}
	ev := &Evidence{PropertyID: prop, Tier: tier, Seed: seed, Level: "proof", WallS: time.Since(start).Seconds(), Violations: len(violations) + len(problems)}
	ev.Coverage = map[string]any{
		"obligations":              len(claimed),
		"discharged":               discharged,
		"checker_cmd":              fmt.Sprintf("/verif/bin/govc check %s --tier %s  (VCs generated from go/ssa of %s, tag verif; solvers z3-new 5.1.0, z3 4.8.12, cvc5 1.0.3 raced, timeout %ds)", prop, tier, repoDir, timeout),
		"trusted_base":             trustedBase(assumedList),
		"functions_under_contract": funcsUnder,
		"obligations_by_kind":      byKind,
		"discharged_by_backend":    backends,
		"solver_time_s":            float64(atomic.LoadInt64(&solverTimeNs)) / 1e9,
		"assumed_contracts_used":   assumedList,
		"known_findings":           knownHit,
		"undecided":                undecidedHit,
		"vacuity_guards_checked":   vacuity,
		"family_notes":             famNotes,
		"outside_subset":           outside,
		"contract_file_scan":       w.Contracts.Scan,
		"samples":                  samples,
		"explanation":              "each obligation is a verification condition generated from the SSA of the real function in /repo under its contract; discharged = solver answered unsat for the negated goal",
	}
	ev.Assumptions = propAssumptions(prop)
	// thorough tier: must-fail self-test of the machinery on the property's seeded changes
	selftestRegressions := 0
	if tier == "thorough" && os.Getenv("GOVC_SELFTEST_CHILD") == "" && exit == 0 {
		results, regress := selfTest(prop)
		ev.Coverage["selftest_seeded_changes"] = results
		selftestRegressions = regress
	}
	if err := writeJSON(filepath.Join(evidenceDir, prop+".json"), ev); err != nil {
		fmt.Fprintln(os.Stderr, "evidence:", err)
		return 2
	}
	fmt.Printf("%s: %d obligations claimed, %d discharged, %d known findings, %d undecided, %d violations, %.1fs\n",
		prop, len(claimed), discharged, len(knownHit), len(undecidedHit), len(violations)+len(problems), time.Since(start).Seconds())
	if verbose {
		for _, o := range allObls {
			fmt.Printf("  %-7s %-55s %s %s\n", o.Answer.Verdict, o.Name, o.Pos, truncate(o.Comment, 80))
		}
	}
	if selftestRegressions > 0 {
		fmt.Printf("SELFTEST-REGRESSION: %d seeded change(s) that this check used to reject are no longer rejected (see evidence.coverage.selftest_seeded_changes); the machinery, not the code, needs attention\n", selftestRegressions)
		return 2
	}
	if internal > 0 && exit == 0 {
		exit = 2
	}
	return exit
}

// selfTest applies every seeded change kept for the property (/verif/seeded/<prop>-<k>/patch.diff)
// to a scratch copy of the working tree and runs the quick check on it: the check must report a
// violation (seeds listed in /verif/seeded/expected_miss.txt excepted). A patch that no longer
// applies is skipped.
func selfTest(prop string) ([]map[string]any, int) {
	var out []map[string]any
	regress := 0
	expectedMiss := map[string]string{}
	if b, err := os.ReadFile(filepath.Join(verifDir, "seeded", "expected_miss.txt")); err == nil {
		for _, l := range strings.Split(string(b), "\n") {
			f := strings.SplitN(strings.TrimSpace(l), " ", 2)
			if len(f) == 2 && !strings.HasPrefix(f[0], "#") {
				expectedMiss[f[0]] = f[1]
			}
		}
	}
	dirs, _ := filepath.Glob(filepath.Join(verifDir, "seeded", prop+"-*"))
	sort.Strings(dirs)
	self, _ := os.Executable()
	for _, d := range dirs {
		seed := filepath.Base(d)
		patch := filepath.Join(d, "patch.diff")
		if _, err := os.Stat(patch); err != nil {
			continue
		}
		rec := map[string]any{"seed": seed}
		scratch, err := os.MkdirTemp("", "govc-selftest-")
		if err != nil {
			rec["outcome"] = "skipped: " + err.Error()
			out = append(out, rec)
			continue
		}
		run := func(dir string, name string, args ...string) (string, int) {
			c := exec.Command(name, args...)
			c.Dir = dir
			c.Env = append(os.Environ(), "GOVC_SELFTEST_CHILD=1")
			b, err := c.CombinedOutput()
			code := 0
			if err != nil {
				code = 1
				if ee, ok := err.(*exec.ExitError); ok {
					code = ee.ExitCode()
				}
			}
			return string(b), code
		}
		if _, code := run("/", "bash", "-c", fmt.Sprintf("cd %q && git ls-files -z | xargs -0 cp --parents -t %q && cp -f verif_contracts.go %q/ 2>/dev/null; true", repoDir, scratch, scratch)); code != 0 {
			rec["outcome"] = "skipped: cannot copy the working tree"
		} else if o, code := run(scratch, "patch", "-p1", "-s", "-i", patch); code != 0 {
			rec["outcome"] = "skipped: patch does not apply to the current tree: " + truncate(strings.TrimSpace(o), 200)
		} else {
			o, code := run("/", self, "check", "--repo", scratch, "--verif", verifDir, prop)
			caught := code == 1 && strings.Contains(o, "VIOLATION property="+prop+" ")
			switch {
			case caught:
				rec["outcome"] = "rejected"
				for _, l := range strings.Split(o, "\n") {
					if strings.HasPrefix(l, "  obligation ") || strings.HasPrefix(l, "  translation/") {
						rec["first_failing"] = truncate(strings.TrimSpace(l), 200)
						break
					}
				}
			case expectedMiss[seed] != "":
				rec["outcome"] = "not rejected (expected: " + expectedMiss[seed] + ")"
			case code == 0:
				rec["outcome"] = "NOT REJECTED (regression)"
				regress++
			default:
				rec["outcome"] = fmt.Sprintf("check failed to run (exit %d): %s", code, truncate(strings.TrimSpace(o), 300))
				regress++
			}
		}
		os.RemoveAll(scratch)
		out = append(out, rec)
	}
	return out, regress
}

// allSolversRejected: every solver of the race answered with an error (cvc5 alone rejects some
// z3 syntax, that is not a malformed query).
func allSolversRejected(out string) bool {
	parts := strings.Split(out, " | ")
	if len(parts) == 0 {
		return false
	}
	for _, p := range parts {
		if !strings.Contains(p, "(error ") {
			return false
		}
	}
	return true
}

func matchKnown(known []KnownFinding, prop string, o *Obligation) *KnownFinding {
	for i := range known {
		k := &known[i]
		if k.Status == "fixed" {
			continue
		}
		if k.Property == prop && k.Obligation == o.Name {
			return k
		}
	}
	return nil
}

func trustedBase(assumed []string) []string {
	tb := []string{
		"govc itself: SSA -> VC translation and memory model (DESIGN.md §2.4, Appendix A); go/ssa, go/types from x/tools v0.29.0",
		"SMT solvers: z3 4.8.12, z3 5.1.0, cvc5 1.0.3 (unsat answers trusted; sat answers replayed where a recipe exists)",
		"machine arithmetic: int overflow is an obligation only in functions marked 'arith checked'; mathematical integers elsewhere",
		"pointer parameters and receivers assumed non-nil unless marked nilable; floating point uninterpreted",
		"std-library callees without a contract: results arbitrary, no effect on package heap except through documented mutable arguments",
	}
	for _, a := range assumed {
		tb = append(tb, "assumed contract: "+a)
	}
	return tb
}

var propAssume = map[string][]string{}

func propAssumptions(prop string) []string {
	base := []string{"see coverage.trusted_base", "user callbacks (filters, functions, methods of context values) do not touch engine-private state"}
	return append(base, propAssume[prop]...)
}

func buildReplay(w *World, prop string, o *Obligation) *Replay {
	rp := &Replay{Property: prop, Obligation: o.Name, Kind: o.Kind, Function: o.Func, Position: o.Pos, Source: o.Src,
		Contract: o.Comment, Verdict: o.Answer.Verdict.String(), Solver: o.Answer.Solver, SolverOut: truncate(o.Answer.Output, 6000),
		Model: o.Answer.Model, Query: truncate(o.query(), 200000), When: nowStamp(), ReplayKind: "none"}
	if o.Answer.Verdict == VSat {
		runReplay(w, prop, o, rp)
	}
	return rp
}

// deriveContract: the part of a function's contract that a family re-uses when it re-executes the
// function with its own hooks (preconditions, invariants, flags — not ensures/modifies, which
// belong to the general run).
func deriveContract(base *Contract, name string) *Contract {
	ct := &Contract{Kind: "func", Name: name, LoopInv: map[int][]*CExpr{}, LoopDec: map[int]*CExpr{}, Nilable: map[string]bool{}, NonNil: map[string]bool{}, Flags: map[string]string{}}
	if base != nil {
		ct.Requires = base.Requires
		ct.Nilable, ct.NonNil, ct.Flags = base.Nilable, base.NonNil, base.Flags
		ct.ArithChecked = base.ArithChecked
		for k, v := range base.LoopInv {
			ct.LoopInv[k] = append(ct.LoopInv[k], v...)
		}
		for k, v := range base.LoopDec {
			ct.LoopDec[k] = v
		}
		ct.LoopStep, ct.LoopSnap = base.LoopStep, base.LoopSnap
		ct.LoopEntry = base.LoopEntry
	}
	return ct
}
