package main

// Loop clauses (`loop N invariant ...`) number the loops of a function in source order. An edit that
// keeps every loop but changes their order - the two arms of an if/else swapped, a block moved up -
// changes no behaviour, yet the clauses would then speak about the wrong loops. `govc names` records
// for every function with two or more loops a signature of each loop (the multiset of operators,
// callees and field names in its body, independent of names, positions and block numbering); when the
// function at hand has the same number of loops and their signatures are a different arrangement of
// the recorded ones, the ordinals follow the signatures. Loops whose signature is not among the
// recorded ones (their body was edited) keep their relative order among the ordinals left over.

import (
	"crypto/sha1"
	"encoding/hex"
	"fmt"
	"sort"
	"strings"

	"golang.org/x/tools/go/ssa"
)

func loopSig(fn *ssa.Function, body map[int]bool) string {
	var toks []string
	for _, b := range fn.Blocks {
		if !body[b.Index] {
			continue
		}
		for _, in := range b.Instrs {
			switch x := in.(type) {
			case *ssa.DebugRef:
				continue
			case *ssa.BinOp:
				toks = append(toks, "b"+x.Op.String())
			case *ssa.UnOp:
				toks = append(toks, "u"+x.Op.String())
			case *ssa.Call:
				toks = append(toks, "c"+calleeTok(&x.Call))
			case *ssa.Defer:
				toks = append(toks, "d"+calleeTok(&x.Call))
			case *ssa.Go:
				toks = append(toks, "g"+calleeTok(&x.Call))
			case *ssa.FieldAddr:
				toks = append(toks, fmt.Sprintf("fa%d", x.Field))
			case *ssa.Field:
				toks = append(toks, fmt.Sprintf("f%d", x.Field))
			case *ssa.Phi, *ssa.Jump, *ssa.If:
				// shape of the control flow: changes with harmless restructuring
				continue
			default:
				toks = append(toks, fmt.Sprintf("%T", in))
			}
		}
	}
	sort.Strings(toks)
	h := sha1.Sum([]byte(strings.Join(toks, " ")))
	return hex.EncodeToString(h[:6])
}

func calleeTok(c *ssa.CallCommon) string {
	if c.IsInvoke() {
		return "i." + c.Method.Name()
	}
	if f := c.StaticCallee(); f != nil {
		return f.Name()
	}
	if b, ok := c.Value.(*ssa.Builtin); ok {
		return b.Name()
	}
	return "dyn"
}

// loopSigsOf: signatures of the loops of fn in source order (the order of the ordinals).
func loopSigsOf(fn *ssa.Function) []string {
	fx := &FnExec{Fn: fn}
	fx.prepareLoopsOnly()
	heads := fx.loopsInOrder()
	out := make([]string, len(heads))
	for i, li := range heads {
		out[i] = loopSig(fn, li.body)
	}
	return out
}

// loopRemap: perm[i] = index (0-based) of the recorded loop that the i-th loop in source order is;
// nil when nothing is recorded, the number of loops differs, or the arrangement is the recorded one.
func loopRemap(name string, fn *ssa.Function, heads []*loopInfo) []int {
	loadRefLocalNames()
	ref := refLoopSigs[name]
	if len(ref) < 2 || len(ref) != len(heads) {
		return nil
	}
	cur := make([]string, len(heads))
	same := true
	for i, li := range heads {
		cur[i] = loopSig(fn, li.body)
		if cur[i] != ref[i] {
			same = false
		}
	}
	if same {
		return nil
	}
	perm := make([]int, len(cur))
	for i := range perm {
		perm[i] = -1
	}
	usedRef := make([]bool, len(ref))
	for i, c := range cur {
		for j, r := range ref {
			if !usedRef[j] && r == c {
				perm[i] = j
				usedRef[j] = true
				break
			}
		}
	}
	j := 0
	for i := range perm {
		if perm[i] >= 0 {
			continue
		}
		for usedRef[j] {
			j++
		}
		perm[i] = j
		usedRef[j] = true
	}
	ident := true
	for i := range perm {
		if perm[i] != i {
			ident = false
		}
	}
	if ident {
		return nil
	}
	return perm
}
