package main

// C01: rendering is repeatable and independent of history — per-call facts (DESIGN.md §5 C01).
//
//   tree     on the render path (everything reachable from Engine.Render/RenderTo, Template.Render/
//            RenderTo, DebugRender) no instruction writes a field of a node or of a Template, or an
//            element of a []Node, unless the object was created by this activation; no node is
//            handed back to a pool unless this activation created it. (A render never consumes,
//            alters or recycles the cached template.)
//   global   every package-level variable touched on the render or parse path is on the allow-list
//            of the contract file (pools, unobservable caches, immutable tables, error sentinels).
//   init     every node constructor that takes its object from a pool assigns every field of it on
//            every path (the object handed out by the pool has arbitrary contents).
// NewRenderContext/Clone/Release carry ordinary contracts (fields reset, maps empty).

import (
	"fmt"
	"go/types"
	"strings"

	"golang.org/x/tools/go/ssa"
)

func init() {
	families["C01"] = append(families["C01"], historyFamily)
	// a package-level variable that evaluation reads and writes makes the value of an expression
	// depend on what was evaluated before (C08: "the value of an expression is the same in every
	// place it can be written"; C03: output determined by templates and context alone): the
	// allow-list obligations are claimed there as well
	for _, p := range []string{"C08", "C03"} {
		pp := p
		families[pp] = append(families[pp], func(w *World, _ string) ([]*Obligation, []string) {
			obls, _ := historyFamily(w, "C01")
			var out []*Obligation
			for _, o := range obls {
				if o.Kind == "global" {
					o.Props = []string{pp}
					out = append(out, o)
				}
			}
			return out, []string{fmt.Sprintf("package-level variables on the render/parse path checked against the allow-list: %d", len(out))}
		})
	}
}

// reachableFrom: in-package functions reachable from the named entry points.
func (w *World) reachableFrom(entries []string) map[*ssa.Function]bool {
	seen := map[*ssa.Function]bool{}
	var stack []*ssa.Function
	for _, e := range entries {
		if f := w.Funcs[e]; f != nil {
			stack = append(stack, f)
		}
	}
	for len(stack) > 0 {
		f := stack[len(stack)-1]
		stack = stack[:len(stack)-1]
		if seen[f] || f.Pkg != w.Pkg {
			continue
		}
		seen[f] = true
		for _, a := range f.AnonFuncs {
			stack = append(stack, a)
		}
		for _, b := range f.Blocks {
			for _, in := range b.Instrs {
				if c, ok := in.(ssa.CallInstruction); ok {
					ts, _ := w.callTargets(c.Common())
					stack = append(stack, ts...)
				}
				// functions whose value is taken may be called later
				var ops []*ssa.Value
				for _, op := range in.Operands(ops) {
					if op != nil && *op != nil {
						if fn, ok := (*op).(*ssa.Function); ok {
							stack = append(stack, fn)
						}
						if mc, ok := (*op).(*ssa.MakeClosure); ok {
							if fn, ok := mc.Fn.(*ssa.Function); ok {
								stack = append(stack, fn)
							}
						}
					}
				}
			}
		}
	}
	return seen
}

func (w *World) nodeStructNames() map[string]bool {
	out := map[string]bool{"Template": true}
	nodeT := w.typeByName("Node")
	if nodeT == nil {
		return out
	}
	iface := nodeT.Underlying().(*types.Interface)
	for _, m := range w.Pkg.Members {
		t, ok := m.(*ssa.Type)
		if !ok {
			continue
		}
		if _, isStruct := t.Type().Underlying().(*types.Struct); !isStruct {
			continue
		}
		if types.Implements(types.NewPointer(t.Type()), iface) || types.Implements(t.Type(), iface) {
			out[t.Name()] = true
		}
	}
	return out
}

func historyFamily(w *World, prop string) ([]*Obligation, []string) {
	var out []*Obligation
	cf := w.Contracts
	render := w.reachableFrom(cf.Lists["render_entries"])
	parse := w.reachableFrom(cf.Lists["parse_entries"])
	nodes := w.nodeStructNames()

	// ---- tree: writes on the render path
	nfn, nsites := 0, 0
	for _, name := range sortedKeys(w.Funcs) {
		fn := w.Funcs[name]
		if !render[fn] || len(fn.Blocks) == 0 {
			continue
		}
		ct := deriveContract(cf.ByName[name], name)
		fx := newFnExec(w, fn, ct)
		sites := 0
		fx.onStore = func(fx *FnExec, in ssa.Instruction, pl *Place, v Val) {
			root := pl
			for root.Kind == PField && root.Base != nil {
				root = root.Base
			}
			switch root.Kind {
			case PField:
				if !nodes[root.SName] {
					return
				}
				sites++
				o := fx.oblige("tree", "(> "+root.Ref+" "+fx.allocBase()+")", in, "the render path writes field "+root.SName+"."+root.Struct.Field(root.Field).Name()+" only of objects it created itself (never the cached template)")
				o.Props = []string{"C01"}
			case PElem:
				if namedTypeName(root.Elem) != "Node" {
					return
				}
				sites++
				o := fx.oblige("tree", "(> "+root.Arr+" "+fx.allocBase()+")", in, "the render path writes []Node elements only of slices it created itself")
				o.Props = []string{"C01"}
			}
		}
		fx.onCall = func(fx *FnExec, call ssa.CallInstruction, args []Val, res *Val) {
			f := call.Common().StaticCallee()
			if f == nil || f.String() != "(*sync.Pool).Put" || len(args) < 2 {
				return
			}
			mi, ok := call.Common().Args[1].(*ssa.MakeInterface)
			if !ok {
				return
			}
			pt, ok := mi.X.Type().Underlying().(*types.Pointer)
			if !ok || !nodes[namedTypeName(pt.Elem())] {
				return
			}
			sites++
			x := fx.term(fx.val(mi.X))
			o := fx.oblige("tree", "(> "+x+" "+fx.allocBase()+")", call, "the render path returns a "+namedTypeName(pt.Elem())+" to its pool only if it created it itself")
			o.Props = []string{"C01"}
		}
		obls, err := fx.Run()
		if err != nil {
			out = append(out, &Obligation{Name: name + "/tree#0", Kind: "tree", Func: name, Goal: "false", PC: "true", Props: []string{"C01"}, Comment: "translation failed: " + err.Error(), Custom: "(assert true)"})
			continue
		}
		if sites > 0 {
			nfn++
			nsites += sites
		}
		for _, o := range obls {
			if o.Kind == "tree" {
				out = append(out, o)
			}
		}
	}

	// ---- global: allow-list
	allow := map[string]bool{}
	for _, g := range cf.Lists["global_allow"] {
		allow[g] = true
	}
	seenG := map[string]string{}
	for _, set := range []map[*ssa.Function]bool{render, parse} {
		for f := range set {
			for _, b := range f.Blocks {
				for _, in := range b.Instrs {
					var ops []*ssa.Value
					for _, op := range in.Operands(ops) {
						if op == nil || *op == nil {
							continue
						}
						if g, ok := (*op).(*ssa.Global); ok && g.Pkg == w.Pkg {
							if _, dup := seenG[g.Name()]; !dup {
								seenG[g.Name()] = displayName(f)
							}
						}
					}
				}
			}
		}
	}
	for _, g := range sortedKeys(seenG) {
		goal := "false"
		if allow[g] {
			goal = "true"
		}
		out = append(out, &Obligation{Name: "globals/" + g, Kind: "global", Func: seenG[g], Goal: goal, PC: "true", Props: []string{"C01"},
			Comment: "package-level variable " + g + " (used in " + seenG[g] + ") on the render/parse path is on the allow-list with a justification", Custom: "(assert " + not(goal) + ")"})
	}

	// ---- pool invariants: "poolinv <Pool> <field>" = every object in the pool has the zero value in
	// that field; checked at every Put site, assumed at Get (then the constructor need not assign it)
	poolInv := map[string]map[string]bool{} // struct name -> fields
	lst := cf.Lists["poolinv"]
	for i := 0; i+1 < len(lst); i += 2 {
		poolName, field := lst[i], lst[i+1]
		g, _ := w.Pkg.Members[poolName].(*ssa.Global)
		if g == nil {
			out = append(out, &Obligation{Name: "poolinv/" + poolName, Kind: "poolinv", Func: poolName, Goal: "false", PC: "true", Props: []string{"C01"}, Comment: "pool named in poolinv list does not exist", Custom: "(assert true)"})
			continue
		}
		pi := w.poolOf(g)
		if pi == nil || pi.elem == nil {
			continue
		}
		pt, ok := pi.elem.Underlying().(*types.Pointer)
		if !ok {
			continue
		}
		sn := w.structName(pt.Elem())
		if poolInv[sn] == nil {
			poolInv[sn] = map[string]bool{}
		}
		poolInv[sn][field] = true
		st := pt.Elem().Underlying().(*types.Struct)
		// New must hand out the zero value too: a composite literal / new() does unless it sets the field
		for _, site := range pi.putSites {
			fn := site.Parent()
			fx := newFnExec(w, fn, deriveContract(cf.ByName[displayName(fn)], displayName(fn)))
			target := site
			fx.onCall = func(fx *FnExec, call ssa.CallInstruction, args []Val, res *Val) {
				if call != target {
					return
				}
				mi := call.Common().Args[1].(*ssa.MakeInterface)
				x := fx.term(fx.val(mi.X))
				for k := 0; k < st.NumFields(); k++ {
					if st.Field(k).Name() != field {
						continue
					}
					v := fx.load(&Place{Kind: PField, Ref: x, Struct: st, Field: k, Elem: st.Field(k).Type(), SName: sn})
					o := fx.oblige("poolinv", eq(v, fx.zero(st.Field(k).Type())), call, "an object returned to "+poolName+" has the zero value in field "+field+" (pool invariant relied upon by the constructor)")
					o.Props = []string{"C01"}
				}
			}
			obls, err := fx.Run()
			if err != nil {
				continue
			}
			for _, o := range obls {
				if o.Kind == "poolinv" {
					out = append(out, o)
				}
			}
		}
	}

	// ---- poolempty: maps kept in these pools are empty (checked at every Put, assumed at Get)
	for _, poolName := range cf.Lists["poolempty"] {
		g, _ := w.Pkg.Members[poolName].(*ssa.Global)
		pi := w.poolOf(g)
		if g == nil || pi == nil || pi.elem == nil {
			out = append(out, &Obligation{Name: "poolempty/" + poolName, Kind: "poolempty", Func: poolName, Goal: "false", PC: "true", Props: []string{"C01"}, Comment: "pool named in poolempty list is missing or untyped", Custom: "(assert true)"})
			continue
		}
		mt, ok := pi.elem.Underlying().(*types.Map)
		if !ok {
			continue
		}
		for _, site := range pi.putSites {
			fn := site.Parent()
			fx := newFnExec(w, fn, deriveContract(cf.ByName[displayName(fn)], displayName(fn)))
			target := site
			fx.onCall = func(fx *FnExec, call ssa.CallInstruction, args []Val, res *Val) {
				if call != target {
					return
				}
				mi := call.Common().Args[1].(*ssa.MakeInterface)
				m := fx.term(fx.val(mi.X))
				dom, _, l := fx.mapHeaps(mt)
				goal := "(and (= (select " + dom + " " + m + ") ((as const (Array " + fx.sortOf(mt.Key()) + " Bool)) false)) (= (select " + l + " " + m + ") 0))"
				o := fx.oblige("poolempty", goal, call, "a map returned to "+poolName+" is empty (pool invariant relied upon when a context is set up)")
				o.Props = []string{"C01"}
			}
			obls, err := fx.Run()
			if err != nil {
				continue
			}
			for _, o := range obls {
				if o.Kind == "poolempty" {
					out = append(out, o)
				}
			}
		}
	}

	// ---- declared pool invariants: hold for what New returns and at every Put
	for _, pc := range cf.Order {
		if pc.Kind != "pool" {
			continue
		}
		g, _ := w.Pkg.Members[pc.Name].(*ssa.Global)
		pi := w.poolOf(g)
		if g == nil || pi == nil || pi.elem == nil {
			out = append(out, &Obligation{Name: "pool/" + pc.Name, Kind: "poolpred", Func: pc.Name, Goal: "false", PC: "true", Props: []string{"C01"}, Comment: "pool contract names a missing or untyped pool", Custom: "(assert true)"})
			continue
		}
		check := func(fn *ssa.Function, target ssa.Instruction) {
			fx := newFnExec(w, fn, deriveContract(cf.ByName[displayName(fn)], displayName(fn)))
			emit := func(fx *FnExec, in ssa.Instruction, x string) {
				xv := Val{T: pi.elem, S: x}
				env := &evalEnv{fx: fx, heap: fx.cur.heap, oldHeap: fx.cur.heap, names: map[string]Val{"x": xv}, gh: fx.cur.gh, oldGh: fx.cur.gh}
				for _, inv := range pc.Requires {
					t, err := fx.evalC(inv.ast, env)
					if err != nil {
						fx.outside = append(fx.outside, "pool invariant: "+err.Error())
						continue
					}
					o := fx.oblige("poolpred", t.S, in, "object handed to "+pc.Name+" satisfies the pool invariant: "+inv.Text)
					o.Props = []string{"C01"}
				}
			}
			if target == nil {
				fx.onReturn = func(fx *FnExec, ret *ssa.Return, vals []Val) {
					if mi, ok := ret.Results[0].(*ssa.MakeInterface); ok {
						emit(fx, ret, fx.term(fx.val(mi.X)))
					}
				}
			} else {
				fx.onCall = func(fx *FnExec, call ssa.CallInstruction, args []Val, res *Val) {
					if call == target {
						mi := call.Common().Args[1].(*ssa.MakeInterface)
						emit(fx, call, fx.term(fx.val(mi.X)))
					}
				}
			}
			obls, err := fx.Run()
			if err != nil {
				return
			}
			for _, o := range obls {
				if o.Kind == "poolpred" {
					out = append(out, o)
				}
			}
		}
		if pi.newFn != nil {
			check(pi.newFn, nil)
		}
		for _, site := range pi.putSites {
			check(site.Parent(), site)
		}
	}

	// ---- init: definite assignment of pooled node fields
	ninit := 0
	for _, name := range sortedKeys(w.Funcs) {
		if !(strings.HasPrefix(name, "Get") && strings.HasSuffix(name, "Node")) {
			continue
		}
		fn := w.Funcs[name]
		if fn.Signature.Results().Len() != 1 {
			continue
		}
		pt, ok := fn.Signature.Results().At(0).Type().Underlying().(*types.Pointer)
		if !ok || !nodes[namedTypeName(pt.Elem())] {
			continue
		}
		st := pt.Elem().Underlying().(*types.Struct)
		sname := w.structName(pt.Elem())
		fx := newFnExec(w, fn, deriveContract(cf.ByName[name], name))
		// ghost: assigned[leaf][ref]; a field that is a struct by value is tracked per sub-field
		type leaf struct{ name, label string }
		var leaves []leaf
		for i := 0; i < st.NumFields(); i++ {
			if sub, ok := st.Field(i).Type().Underlying().(*types.Struct); ok && sub.NumFields() > 0 {
				for j := 0; j < sub.NumFields(); j++ {
					leaves = append(leaves, leaf{"I_" + sname + "_" + sanitize(st.Field(i).Name()) + "_" + sanitize(sub.Field(j).Name()), st.Field(i).Name() + "." + sub.Field(j).Name()})
				}
				continue
			}
			leaves = append(leaves, leaf{"I_" + sname + "_" + sanitize(st.Field(i).Name()), st.Field(i).Name()})
		}
		mark := func(n, ref string) {
			fx.setHeap(n, "(Array Int Bool)", "(store "+fx.heapArr(n, "(Array Int Bool)")+" "+ref+" true)")
		}
		fx.onStore = func(fx *FnExec, in ssa.Instruction, pl *Place, v Val) {
			if pl.Kind == PField && pl.Base == nil && pl.SName == sname {
				f := st.Field(pl.Field)
				if sub, ok := f.Type().Underlying().(*types.Struct); ok && sub.NumFields() > 0 {
					for j := 0; j < sub.NumFields(); j++ {
						mark("I_"+sname+"_"+sanitize(f.Name())+"_"+sanitize(sub.Field(j).Name()), pl.Ref)
					}
					return
				}
				mark("I_"+sname+"_"+sanitize(f.Name()), pl.Ref)
				return
			}
			// store to a sub-field of an embedded struct: place is Field(Base=Field(ref))
			if pl.Kind == PField && pl.Base != nil && pl.Base.Kind == PField && pl.Base.Base == nil && pl.Base.SName == sname {
				outer := st.Field(pl.Base.Field)
				mark("I_"+sname+"_"+sanitize(outer.Name())+"_"+sanitize(pl.Struct.Field(pl.Field).Name()), pl.Base.Ref)
			}
		}
		fx.onCall = func(fx *FnExec, call ssa.CallInstruction, args []Val, res *Val) {
			f := call.Common().StaticCallee()
			if f == nil || f.String() != "(*sync.Pool).Get" || res.S == "" {
				return
			}
			// the object handed out has arbitrary field values: nothing is assigned yet
			for _, l := range leaves {
				val := "false"
				if poolInv[sname][l.label] {
					val = "true" // covered by a pool invariant
				}
				fx.setHeap(l.name, "(Array Int Bool)", "(store "+fx.heapArr(l.name, "(Array Int Bool)")+" (i.pay "+res.S+") "+val+")")
			}
		}
		fx.onReturn = func(fx *FnExec, ret *ssa.Return, vals []Val) {
			for _, l := range leaves {
				o := fx.oblige("init", "(select "+fx.heapArr(l.name, "(Array Int Bool)")+" "+vals[0].S+")", ret, "field "+l.label+" of the pooled "+sname+" is assigned on every path before it is handed out")
				o.Props = []string{"C01"}
				ninit++
			}
		}
		obls, err := fx.Run()
		if err != nil {
			out = append(out, &Obligation{Name: name + "/init#0", Kind: "init", Func: name, Goal: "false", PC: "true", Props: []string{"C01"}, Comment: "translation failed: " + err.Error(), Custom: "(assert true)"})
			continue
		}
		for _, o := range obls {
			if o.Kind == "init" {
				out = append(out, o)
			}
		}
	}
	return out, []string{fmt.Sprintf("render-path functions: %d (with tree write sites: %d, sites: %d); parse-path functions: %d; globals on the paths: %d; init obligations: %d", len(render), nfn, nsites, len(parse), len(seenG), ninit)}
}
