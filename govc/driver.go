package main

// Discharging obligations, naming, reporting.

import (
	"encoding/json"
	"fmt"
	"os"
	"path/filepath"
	"regexp"
	"sort"
	"strings"
	"sync"
	"time"
)

var safetyKinds = map[string]bool{"idx": true, "slice": true, "assert": true, "div": true, "nilmap": true, "ovf": true, "conv": true, "makeslice": true, "panic": true, "nilptr": true, "hash": true, "cmp": true}

// nameObligations assigns stable names: <func>/<kind>#<ordinal in source order among that kind>.
func (fx *FnExec) nameObligations() {
	byKind := map[string][]*Obligation{}
	for _, o := range fx.obls {
		if o.Name != "" {
			continue
		}
		byKind[o.Kind] = append(byKind[o.Kind], o)
	}
	fn := displayName(fx.Fn)
	for kind, os := range byKind {
		sort.SliceStable(os, func(i, j int) bool { return posLess(os[i].Pos, os[j].Pos) })
		for i, o := range os {
			o.Name = fmt.Sprintf("%s/%s#%d", fn, kind, i+1)
		}
	}
}

func posLess(a, b string) bool {
	fa, la := splitPos(a)
	fb, lb := splitPos(b)
	if fa != fb {
		return fa < fb
	}
	return la < lb
}

func splitPos(p string) (string, int) {
	i := strings.LastIndex(p, ":")
	if i < 0 {
		return p, 0
	}
	n := 0
	fmt.Sscanf(p[i+1:], "%d", &n)
	return p[:i], n
}

func (w *World) prelude() string {
	return basePrelude + w.structDecls() + w.Contracts.specText
}

// specChunk: one blank-line-separated block of the spec prelude with the symbols it introduces.
type specChunk struct {
	text string
	syms []string
}

var specChunks []specChunk
var specChunksOnce sync.Once

func (w *World) buildSpecChunks() {
	specChunksOnce.Do(w.buildSpecChunksLocked)
}

func (w *World) buildSpecChunksLocked() {
	for _, blk := range strings.Split(w.Contracts.specText, "\n\n") {
		if strings.TrimSpace(blk) == "" {
			continue
		}
		c := specChunk{text: blk + "\n"}
		for _, loc := range specSigRe.FindAllStringSubmatch(blk, -1) {
			c.syms = append(c.syms, loc[2])
		}
		for _, m := range sortDeclRe.FindAllStringSubmatch(blk, -1) {
			c.syms = append(c.syms, m[1])
		}
		for _, m := range datatypeRe.FindAllStringSubmatch(blk, -1) {
			c.syms = append(c.syms, m[1])
		}
		for _, m := range ctorRe.FindAllStringSubmatch(blk, -1) {
			c.syms = append(c.syms, m[1], m[2])
		}
		specChunks = append(specChunks, c)
	}
}

var sortDeclRe = regexp.MustCompile(`\(declare-sort\s+([^\s()]+)`)

// preludeFor includes only the spec chunks whose symbols the query (transitively) mentions, so
// that quantified axioms of one property do not slow down the queries of another.
func (w *World) preludeFor(body string) string {
	w.buildSpecChunks()
	need := make([]bool, len(specChunks))
	text := body
	for changed := true; changed; {
		changed = false
		for i, c := range specChunks {
			if need[i] {
				continue
			}
			for _, s := range c.syms {
				if containsSymbol(text, s) {
					need[i] = true
					changed = true
					text += c.text
					break
				}
			}
		}
	}
	var b strings.Builder
	b.WriteString(basePrelude)
	b.WriteString(w.structDecls())
	for i, c := range specChunks {
		if need[i] || len(c.syms) == 0 && false {
			b.WriteString(c.text)
		}
	}
	return b.String()
}

func containsSymbol(text, sym string) bool {
	from := 0
	for {
		k := strings.Index(text[from:], sym)
		if k < 0 {
			return false
		}
		k += from
		before := k == 0 || !isSymByte(text[k-1])
		after := k+len(sym) >= len(text) || !isSymByte(text[k+len(sym)])
		if before && after {
			return true
		}
		from = k + 1
	}
}

func isSymByte(c byte) bool {
	return c == '_' || c == '.' || c == '-' || (c >= '0' && c <= '9') || (c >= 'a' && c <= 'z') || (c >= 'A' && c <= 'Z')
}

func (o *Obligation) query() string {
	if o.Custom != "" {
		return o.Custom
	}
	var b strings.Builder
	for _, l := range o.fx.lines[:o.prefix] {
		b.WriteString(l)
		b.WriteByte('\n')
	}
	b.WriteString("(assert " + o.PC + ")\n")
	b.WriteString("(assert (not " + o.Goal + "))\n")
	body := b.String()
	return o.fx.W.preludeFor(body) + body
}

// vacuity query: is the path condition (with all assumptions) satisfiable at all?
func (o *Obligation) reachQuery() string {
	var b strings.Builder
	b.WriteString(o.fx.W.preludeFor(strings.Join(o.fx.lines[:o.prefix], "\n") + o.PC))
	for _, l := range o.fx.lines[:o.prefix] {
		b.WriteString(l)
		b.WriteByte('\n')
	}
	b.WriteString("(assert " + o.PC + ")\n")
	return b.String()
}

func dischargeAll(obls []*Obligation, timeoutS int, workers int) {
	var wg sync.WaitGroup
	ch := make(chan *Obligation)
	for i := 0; i < workers; i++ {
		wg.Add(1)
		go func() {
			defer wg.Done()
			for o := range ch {
				if o.Custom == "" && (o.Goal == "true" || o.PC == "false") {
					o.Answer = &SolverAnswer{Verdict: VUnsat, Solver: "syntactic"}
					bump("syntactic")
					continue
				}
				q := o.query()
				if pat := os.Getenv("GOVC_SAVEQ"); pat != "" && strings.Contains(o.Name+" "+o.Func+"/"+o.Kind, pat) {
					os.MkdirAll("/tmp/govc-q", 0o755)
					os.WriteFile("/tmp/govc-q/"+sanitize(o.Func+"_"+o.Kind+"_"+o.Pos)+".smt2", []byte(q+"(check-sat)\n"), 0o644)
				}
				a := runQuery(q, timeoutS, true)
				o.Answer = &a
			}
		}()
	}
	for _, o := range obls {
		ch <- o
	}
	close(ch)
	wg.Wait()
	// second chance for goals the solvers gave up on while the machine was saturated: a few at a
	// time, with three times the time limit. An answer of "sat" is never retried.
	var again []*Obligation
	for _, o := range obls {
		if o.Answer != nil && o.Answer.Verdict == VUnknown {
			again = append(again, o)
		}
	}
	if len(again) > 0 && len(again) <= 40 {
		sem := make(chan struct{}, 2)
		var wg2 sync.WaitGroup
		for _, o := range again {
			o := o
			wg2.Add(1)
			sem <- struct{}{}
			go func() {
				defer wg2.Done()
				defer func() { <-sem }()
				a := runQuery(o.query(), 3*timeoutS, true)
				if a.Verdict != VUnknown {
					a.Output = "(second attempt) " + a.Output
					o.Answer = &a
				}
			}()
		}
		wg2.Wait()
	}
	// a last chance for the lone straggler: when at most three goals are still undecided (the pattern
	// of a timeout on a busy machine, not of a change that broke a function), they get six times
	// the limit, all solvers, one after the other
	var last []*Obligation
	for _, o := range obls {
		if o.Answer != nil && o.Answer.Verdict == VUnknown {
			last = append(last, o)
		}
	}
	if len(last) > 0 && len(last) <= 3 {
		for _, o := range last {
			a := runQuery(o.query(), 6*timeoutS, true)
			if a.Verdict != VUnknown {
				a.Output = "(third attempt) " + a.Output
				o.Answer = &a
			}
		}
	}
}

// ---------------------------------------------------------------- exclusion lists

type KnownFinding struct {
	Property   string `json:"property"`
	Obligation string `json:"obligation"`
	What       string `json:"what"`
	Witness    string `json:"witness"`
	Status     string `json:"status,omitempty"` // "" = open finding, "fixed" = repaired (suppresses nothing)
	Commit     string `json:"commit,omitempty"`
}

func loadKnownFindings(path string) ([]KnownFinding, error) {
	b, err := os.ReadFile(path)
	if err != nil {
		if os.IsNotExist(err) {
			return nil, nil
		}
		return nil, err
	}
	var out []KnownFinding
	for _, l := range strings.Split(string(b), "\n") {
		l = strings.TrimSpace(l)
		if l == "" || strings.HasPrefix(l, "#") || strings.HasPrefix(l, "fixed:") {
			continue
		}
		var k KnownFinding
		if err := json.Unmarshal([]byte(l), &k); err != nil {
			return nil, fmt.Errorf("known_findings: %v in %q", err, l)
		}
		out = append(out, k)
	}
	return out, nil
}

// undecided.txt: "<property> <obligation name>   # reason"
func loadUndecided(path string) (map[string]string, error) {
	out := map[string]string{}
	b, err := os.ReadFile(path)
	if err != nil {
		if os.IsNotExist(err) {
			return out, nil
		}
		return nil, err
	}
	for _, l := range strings.Split(string(b), "\n") {
		reason := ""
		if i := strings.Index(l, " # "); i >= 0 {
			reason = strings.TrimSpace(l[i+3:])
			l = l[:i]
		}
		l = strings.TrimSpace(l)
		if l == "" || strings.HasPrefix(l, "#") {
			continue
		}
		f := strings.SplitN(l, " ", 2)
		if len(f) != 2 {
			continue
		}
		out[f[0]+" "+strings.TrimSpace(f[1])] = reason
	}
	return out, nil
}

// ---------------------------------------------------------------- evidence

type Evidence struct {
	PropertyID  string         `json:"property_id"`
	Tier        string         `json:"tier"`
	Seed        int            `json:"seed"`
	Level       string         `json:"level"`
	Coverage    map[string]any `json:"coverage"`
	Assumptions []string       `json:"assumptions"`
	WallS       float64        `json:"wall_s"`
	Violations  int            `json:"violations"`
}

func writeJSON(path string, v any) error {
	b, err := json.MarshalIndent(v, "", " ")
	if err != nil {
		return err
	}
	if err := os.MkdirAll(filepath.Dir(path), 0o755); err != nil {
		return err
	}
	tmp := path + ".tmp"
	if err := os.WriteFile(tmp, append(b, '\n'), 0o644); err != nil {
		return err
	}
	return os.Rename(tmp, path)
}

type Replay struct {
	Property    string            `json:"property"`
	Obligation  string            `json:"obligation"`
	Kind        string            `json:"kind"`
	Function    string            `json:"function"`
	Position    string            `json:"position"`
	Source      string            `json:"source"`
	Contract    string            `json:"contract_clause"`
	Verdict     string            `json:"solver_verdict"`
	Solver      string            `json:"solver"`
	SolverOut   string            `json:"solver_output"`
	Model       map[string]string `json:"model,omitempty"`
	Query       string            `json:"smt_query"`
	ReplayKind  string            `json:"replay_kind"`
	ReplayCmd   string            `json:"replay_cmd,omitempty"`
	ReplayInput map[string]any    `json:"replay_input,omitempty"`
	ReplayOut   string            `json:"replay_transcript,omitempty"`
	Reproduced  bool              `json:"reproduced_on_real_code"`
	When        string            `json:"when"`
}

func nowStamp() string { return time.Now().UTC().Format(time.RFC3339) }
