package main

// "The value of an expression is the same in every place it can be written" (C08), "a macro produces
// the same output however it is called" (C12), "parent() yields what the next definition would have
// rendered" (C10): a macro call and parent() used to be answered with a Go function that only a
// print tag knew how to run, so the same call was text in {{ m() }} and a function address in
// {{ m()|upper }}. The evaluation functions now run such a function where the call is evaluated.
// Obligation (syntactic, over the SSA of every function that builds such a function value): no
// return of the function hands out a closure whose type is one of the two "run me later" types
// - func(io.Writer) error, func(*RenderContext) (interface{}, error) - as an interface value.
// Functions of `list lazy_exempt` (the extension function behind parent(), whose caller runs the
// result at once) are exempt.

import (
	"fmt"
	"go/types"

	"golang.org/x/tools/go/ssa"
)

func init() {
	for _, p := range []string{"C08", "C12", "C10"} {
		families[p] = append(families[p], lazyValueFamily)
	}
}

func isLazySig(t types.Type) bool {
	sig, ok := t.Underlying().(*types.Signature)
	if !ok {
		return false
	}
	s := types.TypeString(sig, func(p *types.Package) string { return p.Name() })
	return s == "func(io.Writer) error" || s == "func(w io.Writer) error" ||
		s == "func(*twig.RenderContext) (interface{}, error)" || s == "func(ctx *twig.RenderContext) (interface{}, error)" ||
		s == "func(*twig.RenderContext) (any, error)" || s == "func(ctx *twig.RenderContext) (any, error)"
}

func carriesLazy(v ssa.Value, seen map[ssa.Value]bool) bool {
	if seen[v] {
		return false
	}
	seen[v] = true
	switch x := v.(type) {
	case *ssa.MakeClosure:
		return isLazySig(x.Type())
	case *ssa.Function:
		return isLazySig(x.Type())
	case *ssa.MakeInterface:
		return carriesLazy(x.X, seen)
	case *ssa.ChangeInterface:
		return carriesLazy(x.X, seen)
	case *ssa.ChangeType:
		return carriesLazy(x.X, seen)
	case *ssa.Phi:
		for _, e := range x.Edges {
			if carriesLazy(e, seen) {
				return true
			}
		}
	case *ssa.UnOp:
		// a local variable holding the value
		if a, ok := x.X.(*ssa.Alloc); ok {
			if refs := a.Referrers(); refs != nil {
				for _, r := range *refs {
					if st, ok := r.(*ssa.Store); ok && st.Addr == a && carriesLazy(st.Val, seen) {
						return true
					}
				}
			}
		}
	}
	return false
}

func lazyValueFamily(w *World, prop string) ([]*Obligation, []string) {
	exempt := map[string]bool{}
	for _, n := range expandFuncList(w, w.Contracts.Lists["lazy_exempt"]) {
		exempt[n] = true
	}
	var out []*Obligation
	nf := 0
	for _, name := range sortedKeys(w.Funcs) {
		fn := w.Funcs[name]
		if exempt[name] || len(fn.Blocks) == 0 {
			continue
		}
		builds := false
		for _, b := range fn.Blocks {
			for _, in := range b.Instrs {
				if mc, ok := in.(*ssa.MakeClosure); ok && isLazySig(mc.Type()) {
					builds = true
				}
			}
		}
		if !builds {
			continue
		}
		nf++
		k := 0
		for _, b := range fn.Blocks {
			for _, in := range b.Instrs {
				ret, ok := in.(*ssa.Return)
				if !ok {
					continue
				}
				k++
				bad := false
				for _, r := range ret.Results {
					if _, isIface := r.Type().Underlying().(*types.Interface); isIface && carriesLazy(r, map[ssa.Value]bool{}) {
						bad = true
					}
				}
				goal := "true"
				if bad {
					goal = "false"
				}
				pos, src := w.posAndSrc(in)
				out = append(out, &Obligation{Name: fmt.Sprintf("%s/lazy#%d", name, k), Kind: "lazy", Func: name, Pos: pos, Src: src, Goal: goal, PC: "true", Props: []string{"C08", "C12", "C10"},
					Comment: "the value returned is not a function waiting to be run by a print tag (a macro call or parent() has its text as value wherever it is written)" + ifs(bad, " — a closure of a run-me-later type is returned as the value", ""), Custom: "(assert " + not(goal) + ")"})
			}
		}
	}
	return out, []string{fmt.Sprintf("functions building run-me-later closures: %d, returns checked: %d", nf, len(out))}
}
