package main

// Inlining of helpers that did not exist when the contracts were written.
//
// Verification is modular: a call is checked against the callee's contract, and a callee without a
// contract is an arbitrary function (its result and everything it may write are havoc). That is the
// right reading for the functions of the tree the contracts were written against - a function left
// without a contract there was left out on purpose. It is the wrong reading for a function that a
// later edit carved out of a function under contract ("extract helper"): the code is the same code,
// and the facts the caller's clauses need are now behind a call nobody could have specified. Such a
// function - static callee in the package, no contract, not in the table of functions `govc names`
// recorded (spec/localnames.json), no loop, no defer, no recursion, at most three levels deep - is
// executed in place: its blocks run on the caller's state with the parameters bound to the
// arguments, its returns are merged into one state, and every safety obligation raised inside it is
// an obligation of the caller (it was one before the code moved). A helper with a loop would need an
// invariant nobody wrote: it stays a call of an arbitrary function.

import (
	"fmt"
	"go/types"
	"strings"

	"golang.org/x/tools/go/ssa"
)

type inlRet struct {
	pc   string
	vals []Val
	heap heapState
	gh   map[string]string
}

func (fx *FnExec) inlinable(c *ssa.CallCommon) *ssa.Function {
	f := c.StaticCallee()
	if f == nil || len(f.Blocks) == 0 || f.Pkg == nil || fx.root().Pkg != f.Pkg || len(f.FreeVars) > 0 {
		return nil
	}
	if fx.inlDepth >= 3 || f == fx.Fn || f == fx.root() {
		return nil
	}
	for _, g := range fx.inlStack {
		if g == f {
			return nil
		}
	}
	loadRefLocalNames()
	if refFuncs == nil || refFuncs[displayName(f)] {
		return nil
	}
	if f.Recover != nil {
		return nil
	}
	for _, b := range f.Blocks {
		for _, s := range b.Succs {
			if s.Dominates(b) {
				return nil // a loop
			}
		}
		for _, in := range b.Instrs {
			switch in.(type) {
			case *ssa.Defer, *ssa.Go, *ssa.Select, *ssa.RunDefers:
				return nil
			}
		}
	}
	return f
}

// groupOnly: the contract carries nothing but what a group applied to a whole file gives every
// function of that file (the safety sweep): no clause was written for this function.
func groupOnly(ct *Contract) bool {
	if ct == nil {
		return true
	}
	return ct.Kind == "func" && len(ct.Requires) == 0 && len(ct.Ensures) == 0 && len(ct.Modifies) == 0 && !ct.HasModifies &&
		!ct.Assumed && !ct.Pure && !ct.Fresh && !ct.Function && len(ct.GhostSet) == 0 && len(ct.AtCall) == 0 &&
		len(ct.Nilable) == 0 && len(ct.NonNil) == 0 && len(ct.LoopInv) == 0 && len(ct.LoopStep) == 0 && len(ct.LoopEntry) == 0
}

// inlinedEverywhere: a helper the contracts do not know, which every caller executes in place: its
// obligations are raised (in context) in each caller, so it is not checked on its own, where it has
// no precondition to rely on.
func (w *World) inlinedEverywhere(f *ssa.Function) bool {
	loadRefLocalNames()
	if refFuncs == nil || refFuncs[displayName(f)] || len(f.Blocks) == 0 || len(f.FreeVars) > 0 || f.Recover != nil {
		return false
	}
	if f.Object() != nil && f.Object().Exported() {
		return false
	}
	for _, b := range f.Blocks {
		for _, s := range b.Succs {
			if s.Dominates(b) {
				return false
			}
		}
		for _, in := range b.Instrs {
			switch in.(type) {
			case *ssa.Defer, *ssa.Go, *ssa.Select, *ssa.RunDefers:
				return false
			}
		}
	}
	// every use is a static call from a function of the package
	ncall := 0
	for _, g := range w.AllFuncs {
		for _, b := range g.Blocks {
			for _, in := range b.Instrs {
				var ops [16]*ssa.Value
				for _, op := range in.Operands(ops[:0]) {
					if op == nil || *op != ssa.Value(f) {
						continue
					}
					ci, ok := in.(ssa.CallInstruction)
					if !ok || ci.Common().Value != ssa.Value(f) {
						return false // the function is used as a value
					}
					if _, isCall := in.(*ssa.Call); !isCall {
						return false
					}
					if g == f {
						return false
					}
					ncall++
				}
			}
		}
	}
	return ncall > 0
}

func (fx *FnExec) root() *ssa.Function {
	if fx.rootFn != nil {
		return fx.rootFn
	}
	return fx.Fn
}

func (fx *FnExec) tryInlineNew(in ssa.Instruction, c *ssa.CallCommon, ct *Contract, args []Val, rtype types.Type) (Val, bool) {
	if !groupOnly(ct) {
		return Val{}, false
	}
	return fx.tryInline(in, c, args, rtype)
}

func (fx *FnExec) tryInline(in ssa.Instruction, c *ssa.CallCommon, args []Val, rtype types.Type) (Val, bool) {
	f := fx.inlinable(c)
	if f == nil || len(args) != len(f.Params) {
		return Val{}, false
	}
	fx.frameCheckCall(in, c, nil, nil)
	// function-specific state of the caller
	sFn, sC, sBs, sEdge, sCur, sBlock := fx.Fn, fx.C, fx.bs, fx.edgeCond, fx.cur, fx.curBlock
	sBack, sLoop, sParams, sCallOrd, sAtHit := fx.backEdge, fx.loopHead, fx.params, fx.callOrd, fx.atcallHit
	sRenames, sSnaps, sPrefix, sRets, sRoot, sStack := fx.renames, fx.snaps, fx.namePrefix, fx.inlRets, fx.rootFn, fx.inlStack
	sOnReturn, sRec := fx.onReturn, fx.recordBranches
	if fx.rootFn == nil {
		fx.rootFn = fx.Fn
	}
	fx.inlStack = append(append([]*ssa.Function{}, fx.inlStack...), fx.Fn)
	fx.nInl++
	fx.Fn, fx.C = f, nil
	fx.bs, fx.edgeCond = map[*ssa.BasicBlock]*blockState{}, map[[2]int]string{}
	fx.params, fx.callOrd, fx.atcallHit = map[string]Val{}, map[ssa.Instruction]int{}, map[int]bool{}
	fx.renames, fx.snaps = map[string]string{}, nil
	fx.namePrefix = fmt.Sprintf("i%d_", fx.nInl)
	fx.inlRets = &[]inlRet{}
	fx.onReturn, fx.recordBranches = nil, false
	fx.inlDepth++
	fx.notes = append(fx.notes, "inlined:"+displayName(f))

	entry := &blockState{pc: sCur.pc, heap: copyHeap(sCur.heap), gh: copyMap(sCur.gh)}
	order := fx.prepareCFG()
	for i, p := range f.Params {
		a := args[i]
		a.T = p.Type()
		fx.regs[p] = a
	}
	fx.bs[f.Blocks[0]] = entry
	for _, b := range order {
		fx.execBlock(b)
	}
	rets := *fx.inlRets

	fx.inlDepth--
	fx.Fn, fx.C, fx.bs, fx.edgeCond, fx.cur, fx.curBlock = sFn, sC, sBs, sEdge, sCur, sBlock
	fx.backEdge, fx.loopHead, fx.params, fx.callOrd, fx.atcallHit = sBack, sLoop, sParams, sCallOrd, sAtHit
	fx.renames, fx.snaps, fx.namePrefix, fx.inlRets, fx.rootFn, fx.inlStack = sRenames, sSnaps, sPrefix, sRets, sRoot, sStack
	fx.onReturn, fx.recordBranches = sOnReturn, sRec

	// merge the returns into the caller's state
	var live []inlRet
	for _, r := range rets {
		if r.pc != "false" {
			live = append(live, r)
		}
	}
	if len(live) == 0 {
		// the helper never returns (it panics on every path; each panic was an obligation)
		fx.assume("false")
		return fx.resultVal(rtype, "ret_"+sanitize(f.Name())), true
	}
	var pcs []string
	for _, r := range live {
		pcs = append(pcs, r.pc)
	}
	// every path through a loop-free body ends in a return or in a panic that was an obligation
	fx.assume(or(pcs...))
	names := map[string]bool{}
	for _, r := range live {
		for k := range r.heap {
			names[k] = true
		}
	}
	for _, k := range sortedKeys(names) {
		sort := fx.W.heapSorts[k]
		var term string
		for i := len(live) - 1; i >= 0; i-- {
			v, ok := live[i].heap[k]
			if !ok {
				v = k + "_0"
				if !fx.declared[v] {
					fx.declared[v] = true
					fx.emit("(declare-const %s %s)", v, sort)
				}
				if _, ok := fx.heap0[k]; !ok {
					fx.heap0[k] = v
				}
			}
			if term == "" {
				term = v
			} else {
				term = ite(live[i].pc, v, term)
			}
		}
		if strings.HasPrefix(term, "(ite") {
			n := fx.freshName(k + "_m")
			fx.emit("(define-fun %s () %s %s)", n, sort, term)
			term = n
		}
		fx.cur.heap[k] = term
	}
	gnames := map[string]bool{}
	for _, r := range live {
		for k := range r.gh {
			gnames[k] = true
		}
	}
	for _, k := range sortedKeys(gnames) {
		var term string
		for i := len(live) - 1; i >= 0; i-- {
			v := live[i].gh[k]
			if v == "" && k == "$acnt" {
				v = "0"
			}
			if v == "" {
				v = fx.ghostEntry(k)
			}
			if term == "" {
				term = v
			} else {
				term = ite(live[i].pc, v, term)
			}
		}
		if strings.HasPrefix(term, "(ite") {
			srt := ""
			if g := fx.W.Contracts.ghost(k); g != nil {
				srt = g.Sort
			} else if k == "$acnt" {
				srt = "Int"
			} else if k == "$lk" {
				srt = "(Array Int Int)"
			}
			if srt != "" {
				n := fx.freshName("gh_" + sanitize(k) + "_m")
				fx.emit("(define-fun %s () %s %s)", n, srt, term)
				term = n
			}
		}
		fx.cur.gh[k] = term
	}
	// result
	res := f.Signature.Results()
	mergeAt := func(i int, t types.Type) Val {
		var term string
		for j := len(live) - 1; j >= 0; j-- {
			v := live[j].vals[i].S
			if term == "" {
				term = v
			} else {
				term = ite(live[j].pc, v, term)
			}
		}
		return Val{T: t, S: fx.define("ret_"+sanitize(f.Name()), fx.sortOf(t), term)}
	}
	switch res.Len() {
	case 0:
		return Val{T: rtype}, true
	case 1:
		return mergeAt(0, res.At(0).Type()), true
	}
	var vs []Val
	for i := 0; i < res.Len(); i++ {
		vs = append(vs, mergeAt(i, res.At(i).Type()))
	}
	return Val{T: rtype, Tup: vs}, true
}

// inlineReturn: a return of a helper executed in place.
func (fx *FnExec) inlineReturn(x *ssa.Return) {
	var vals []Val
	for _, r := range x.Results {
		v := fx.val(r)
		vals = append(vals, Val{T: r.Type(), S: fx.term(v)})
	}
	*fx.inlRets = append(*fx.inlRets, inlRet{pc: fx.cur.pc, vals: vals, heap: copyHeap(fx.cur.heap), gh: copyMap(fx.cur.gh)})
}
