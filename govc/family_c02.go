package main

// C02: concurrent use of one engine is safe — the lock/ownership discipline (family F9), from which
// data-race freedom follows for all schedules (standard permission argument, stated not mechanised).
//
//   guarded   list guarded <Struct>.<field> <Struct>.<mutexfield>: every read of the field needs the
//             mutex held (read or write mode), every store to it and every update/delete of the map
//             it holds needs write mode — unless the object was created by this activation
//             (constructors). Lock state is a ghost array updated by the sync.(RW)Mutex methods.
//   immutable list config_only <Struct>.<field>: fields (and the maps they hold) that only
//             configuration functions (list config_funcs) may write.
//   release   after a function of list releasers was called on v, nothing derived from v is used:
//             no later call reads a heap that was filled from v's methods (use after release).
//   global    package-level variables written on the concurrent paths must be guarded, pools, or
//             on the allow-list (shared with C01).

import (
	"fmt"
	"go/token"
	"go/types"
	"strings"

	"golang.org/x/tools/go/ssa"
)

func init() {
	families["C02"] = append(families["C02"], lockFamily)
	// a lock taken twice is a render that never returns (C05: "fails to terminate")
	families["C05"] = append(families["C05"], func(w *World, _ string) ([]*Obligation, []string) {
		obls, _ := lockFamily(w, "C02")
		var out []*Obligation
		for _, o := range obls {
			if o.Kind == "relock" || o.Kind == "unlock" {
				o.Props = []string{"C05"}
				out = append(out, o)
			}
		}
		return out, []string{fmt.Sprintf("lock acquisitions checked against re-entry: %d", len(out))}
	})
	// what goes back to a pool, and when, also decides whether a later render can see an earlier
	// one (C01): the release-order obligations are claimed there as well
	families["C01"] = append(families["C01"], func(w *World, prop string) ([]*Obligation, []string) {
		rel := append(releaseOrderObligations(w), releaseOwnedObligations(w)...)
		return rel, []string{fmt.Sprintf("release-order and release-owned obligations: %d", len(rel))}
	})
}

type guardSpec struct {
	sname, field, mutex string
}

func lockOp(f *ssa.Function) (string, bool) {
	switch f.String() {
	case "(*sync.RWMutex).RLock":
		return "rlock", true
	case "(*sync.RWMutex).RUnlock":
		return "runlock", true
	case "(*sync.RWMutex).Lock", "(*sync.Mutex).Lock":
		return "lock", true
	case "(*sync.RWMutex).Unlock", "(*sync.Mutex).Unlock":
		return "unlock", true
	}
	return "", false
}

// lockKindsOf: the kinds of mutexes ("<Struct>.<field>") that fn, or anything it calls inside the
// package, locks (for reading or writing).
func (w *World) lockKindsOf(fn *ssa.Function) map[string]bool {
	if w.lockKinds == nil {
		w.lockKinds = map[*ssa.Function]map[string]bool{}
		direct := map[*ssa.Function]map[string]bool{}
		callees := map[*ssa.Function][]*ssa.Function{}
		for _, f := range w.AllFuncs {
			direct[f] = map[string]bool{}
			for _, b := range f.Blocks {
				for _, in := range b.Instrs {
					c, ok := in.(ssa.CallInstruction)
					if !ok {
						continue
					}
					if sc := c.Common().StaticCallee(); sc != nil {
						if op, isLock := lockOp(sc); isLock {
							if (op == "lock" || op == "rlock") && len(c.Common().Args) > 0 {
								if fa, ok := c.Common().Args[0].(*ssa.FieldAddr); ok {
									if sn, st := w.structOfPtr(fa.X.Type()); st != nil {
										direct[f][sn+"."+st.Field(fa.Field).Name()] = true
									}
								}
							}
							continue
						}
					}
					tg, _ := w.callTargets(c.Common())
					for _, t := range tg {
						if t.Pkg == w.Pkg {
							callees[f] = append(callees[f], t)
						}
					}
				}
			}
		}
		for _, f := range w.AllFuncs {
			seen := map[*ssa.Function]bool{}
			acc := map[string]bool{}
			stack := []*ssa.Function{f}
			for len(stack) > 0 {
				g := stack[len(stack)-1]
				stack = stack[:len(stack)-1]
				if seen[g] {
					continue
				}
				seen[g] = true
				for k := range direct[g] {
					acc[k] = true
				}
				stack = append(stack, callees[g]...)
			}
			w.lockKinds[f] = acc
		}
	}
	return w.lockKinds[fn]
}

func lockKindFn(k string) string {
	i := strings.Index(k, ".")
	return "fieldptr_" + k[:i] + "_" + sanitize(k[i+1:])
}

// allLockKinds: every kind of mutex some function of the package locks.
func (w *World) allLockKinds() []string {
	set := map[string]bool{}
	for _, f := range w.AllFuncs {
		for k := range w.lockKindsOf(f) {
			set[k] = true
		}
	}
	return sortedKeys(set)
}

// structOfPtr returns the struct name and type behind a pointer-typed SSA value.
func (w *World) structOfPtr(t types.Type) (string, *types.Struct) {
	p, ok := t.Underlying().(*types.Pointer)
	if !ok {
		return "", nil
	}
	st, ok := p.Elem().Underlying().(*types.Struct)
	if !ok {
		return "", nil
	}
	return w.structName(p.Elem()), st
}

func lockFamily(w *World, prop string) ([]*Obligation, []string) {
	cf := w.Contracts
	var out []*Obligation
	var guards []guardSpec
	lst := cf.Lists["guarded"]
	for i := 0; i+1 < len(lst); i += 2 {
		a := strings.SplitN(lst[i], ".", 2)
		b := strings.SplitN(lst[i+1], ".", 2)
		if len(a) == 2 && len(b) == 2 {
			sn := a[0]
			// a package-level variable of anonymous struct type is named by the variable
			if g, ok := w.Pkg.Members[sn].(*ssa.Global); ok {
				sn = w.structName(g.Type().(*types.Pointer).Elem())
			}
			guards = append(guards, guardSpec{sn, a[1], b[1]})
		}
	}
	guardOf := func(sname, field string) *guardSpec {
		for i := range guards {
			if guards[i].sname == sname && guards[i].field == field {
				return &guards[i]
			}
		}
		return nil
	}
	configFns := map[string]bool{}
	for _, n := range expandFuncList(w, cf.Lists["config_funcs"]) {
		configFns[n] = true
	}
	configOnly := map[string]bool{}
	for _, f := range cf.Lists["config_only"] {
		configOnly[f] = true
	}
	// every mutex named as a guard exists
	for _, g := range guards {
		found := false
		if si, ok := w.structs[g.sname]; ok {
			for i := 0; i < si.st.NumFields(); i++ {
				if si.st.Field(i).Name() == g.mutex {
					found = true
				}
			}
		} else {
			found = true // struct not touched by any function yet; checked when it is
		}
		if !found {
			out = append(out, &Obligation{Name: "guarded/" + g.sname + "." + g.field, Kind: "guarded", Func: g.sname, Goal: "false", PC: "true", Props: []string{"C02"}, Comment: "guard mutex " + g.mutex + " does not exist in " + g.sname, Custom: "(assert true)"})
		}
	}
	shared := map[string]bool{}
	for _, t := range cf.Lists["shared_types"] {
		shared[t] = true
	}
	concurrent := w.reachableFrom(cf.Lists["concurrent_entries"])
	nacc := 0
	for _, name := range sortedKeys(w.Funcs) {
		fn := w.Funcs[name]
		if len(fn.Blocks) == 0 || name == "init" || strings.HasPrefix(name, "init$") || strings.HasPrefix(name, "init#") {
			continue // package initialisation runs before any goroutine can use the package
		}
		// quick relevance scan
		relevant := false
		for _, b := range fn.Blocks {
			for _, in := range b.Instrs {
				if fa, ok := in.(*ssa.FieldAddr); ok {
					sn, st := w.structOfPtr(fa.X.Type())
					if st != nil && (guardOf(sn, st.Field(fa.Field).Name()) != nil || configOnly[sn+"."+st.Field(fa.Field).Name()]) {
						relevant = true
					}
					if st != nil && shared[sn] && concurrent[fn] {
						relevant = true
					}
				}
			}
		}
		if !relevant {
			continue
		}
		fx := newFnExec(w, fn, deriveContract(cf.ByName[name], name))
		mutexID := func(fx *FnExec, sname string, st *types.Struct, ref, mfield string) string {
			fnm := "fieldptr_" + sname + "_" + sanitize(mfield)
			fx.declareFun(fnm, []string{"Int"}, "Int")
			return "(" + fnm + " " + ref + ")"
		}
		lkEntry := ""
		// every lock the function took is released when it returns (an early return between Lock and
		// Unlock leaves the mutex locked for good: the next caller never gets in)
		fx.onReturn = func(fx *FnExec, ret *ssa.Return, vals []Val) {
			if lkEntry == "" {
				return
			}
			o := fx.oblige("unlock", "(= "+fx.cur.gh["$lk"]+" "+lkEntry+")", ret, "the locks held at the return are the locks held at the entry: every mutex this function locked is unlocked again on this path")
			o.Props = []string{"C02", "C05"}
		}
		fx.onEntry = func(fx *FnExec) {
			// no lock is held on entry, except in functions documented as "caller holds the lock"
			// (flag holds), which are entered with every lock held
			n := fx.havoc("lk_entry", "(Array Int Int)")
			lkEntry = n
			// mutexes of different kinds (struct type and field) are different mutexes
			kinds := w.allLockKinds()
			for i := 0; i < len(kinds); i++ {
				for j := i + 1; j < len(kinds); j++ {
					a, b := lockKindFn(kinds[i]), lockKindFn(kinds[j])
					fx.declareFun(a, []string{"Int"}, "Int")
					fx.declareFun(b, []string{"Int"}, "Int")
					fx.assumeGlobal("(forall ((qa Int) (qb Int)) (! (distinct (" + a + " qa) (" + b + " qb)) :pattern ((" + a + " qa) (" + b + " qb))))")
				}
			}
			if fx.C == nil || fx.C.Flags["holds"] == "" {
				fx.assumeGlobal("(= " + n + " ((as const (Array Int Int)) 0))")
			} else {
				fx.assumeGlobal("(= " + n + " ((as const (Array Int Int)) 2))")
			}
			fx.cur.gh["$lk"] = n
		}
		lockState := func(fx *FnExec) string { return fx.cur.gh["$lk"] }
		fx.onCall = func(fx *FnExec, call ssa.CallInstruction, args []Val, res *Val) {
			// a callee that takes a lock of some kind (struct type and mutex field; transitively, class
			// hierarchy targets for interface calls) is not called while a mutex of that kind is held:
			// two sites that are each fine alone (a getter that locks, a caller that already holds the
			// lock) block the goroutine forever together - also for two read locks, once a writer waits
			if tg, _ := w.callTargets(call.Common()); len(tg) > 0 {
				kinds := map[string]bool{}
				for _, t := range tg {
					if _, isLock := lockOp(t); isLock {
						continue
					}
					for k := range w.lockKindsOf(t) {
						kinds[k] = true
					}
				}
				for _, k := range sortedKeys(kinds) {
					i := strings.Index(k, ".")
					fnm := "fieldptr_" + k[:i] + "_" + sanitize(k[i+1:])
					fx.declareFun(fnm, []string{"Int"}, "Int")
					o := fx.oblige("relock", "(forall ((r Int)) (= (select "+lockState(fx)+" ("+fnm+" r)) 0))", call, "no mutex "+k+" is held when a function that locks one is called (sync's mutexes are not re-entrant, and a second read lock blocks for ever once a writer waits)")
					o.Props = []string{"C02", "C05"}
				}
			}
			f := call.Common().StaticCallee()
			if f == nil {
				return
			}
			op, ok := lockOp(f)
			if !ok || len(args) == 0 {
				return
			}
			m := fx.term(args[0])
			cur := lockState(fx)
			var nv string
			// sync's mutexes are not re-entrant: taking a lock this activation (or, in a function
			// entered with the lock held, its caller) already holds blocks forever
			switch op {
			case "lock":
				o := fx.oblige("relock", "(= (select "+cur+" "+m+") 0)", call, "the mutex is not already held when it is locked (sync.Mutex and sync.RWMutex are not re-entrant: the goroutine would block forever)")
				o.Props = []string{"C02", "C05"}
			case "rlock":
				o := fx.oblige("relock", "(= (select "+cur+" "+m+") 0)", call, "the mutex is not held, for writing or for reading, when it is locked for reading (recursive read locking is prohibited: the goroutine blocks forever once a writer waits)")
				o.Props = []string{"C02", "C05"}
			}
			switch op {
			case "rlock":
				nv = "1"
			case "lock":
				nv = "2"
			default:
				nv = "0"
			}
			fx.cur.gh["$lk"] = fx.define("lk", "(Array Int Int)", "(store "+cur+" "+m+" "+nv+")")
		}
		access := func(fx *FnExec, in ssa.Instruction, sname string, st *types.Struct, fieldIdx int, ref string, write bool) {
			fname := st.Field(fieldIdx).Name()
			if g := guardOf(sname, fname); g != nil {
				nacc++
				held := "(select " + lockState(fx) + " " + mutexID(fx, sname, st, ref, g.mutex) + ")"
				need := "(>= " + held + " 1)"
				what := "read of"
				if write {
					need = "(= " + held + " 2)"
					what = "write to"
				}
				o := fx.oblige("guarded", or("(> "+ref+" "+fx.allocBase()+")", need), in, what+" "+sname+"."+fname+" happens with "+sname+"."+g.mutex+" held in the required mode (or on an object not yet shared)")
				o.Props = []string{"C02"}
			}
			if write && shared[sname] && concurrent[fn] && guardOf(sname, fname) == nil && !configFns[displayName(fn)] {
				o := fx.oblige("shared", "(> "+ref+" "+fx.allocBase()+")", in, "write to "+sname+"."+fname+" on a path that runs concurrently: the field has no guard, so the object must not be shared yet")
				o.Props = []string{"C02"}
			}
			if write && configOnly[sname+"."+fname] && !configFns[displayName(fn)] {
				o := fx.oblige("immutable", "(> "+ref+" "+fx.allocBase()+")", in, sname+"."+fname+" is written only by configuration functions (or on an object not yet shared)")
				o.Props = []string{"C02"}
			}
		}
		fx.onLoad = func(fx *FnExec, in *ssa.UnOp, pl *Place) {
			if pl.Kind == PField && pl.Base == nil {
				access(fx, in, pl.SName, pl.Struct, pl.Field, pl.Ref, false)
			}
		}
		fx.onStore = func(fx *FnExec, in ssa.Instruction, pl *Place, v Val) {
			switch x := in.(type) {
			case *ssa.Store:
				if pl.Kind == PField && pl.Base == nil {
					access(fx, in, pl.SName, pl.Struct, pl.Field, pl.Ref, true)
				}
			case *ssa.MapUpdate:
				if sn, st, fi, ref, ok := fieldLoadOrigin(fx, x.Map); ok {
					access(fx, in, sn, st, fi, ref, true)
				}
			default:
				if c, ok := in.(ssa.CallInstruction); ok {
					if b, isB := c.Common().Value.(*ssa.Builtin); isB && b.Name() == "delete" {
						if sn, st, fi, ref, ok := fieldLoadOrigin(fx, c.Common().Args[0]); ok {
							access(fx, in, sn, st, fi, ref, true)
						}
					}
				}
			}
		}
		obls, err := fx.Run()
		if err != nil {
			out = append(out, &Obligation{Name: name + "/guarded#0", Kind: "guarded", Func: name, Goal: "false", PC: "true", Props: []string{"C02"}, Comment: "translation failed: " + err.Error(), Custom: "(assert true)"})
			continue
		}
		for _, o := range obls {
			if o.Kind == "guarded" || o.Kind == "relock" || o.Kind == "immutable" || o.Kind == "shared" || o.Kind == "unlock" {
				out = append(out, o)
			}
		}
	}
	// ---- use after release (dataflow)
	rel := append(releaseOrderObligations(w), releaseOwnedObligations(w)...)
	out = append(out, rel...)
	return out, []string{fmt.Sprintf("guarded field accesses checked: %d; release-order obligations: %d", nacc, len(rel))}
}

// fieldLoadOrigin: v is a load of a struct field x.f; returns the struct, field and the object term.
func fieldLoadOrigin(fx *FnExec, v ssa.Value) (string, *types.Struct, int, string, bool) {
	u, ok := v.(*ssa.UnOp)
	if !ok || u.Op != token.MUL {
		return "", nil, 0, "", false
	}
	fa, ok := u.X.(*ssa.FieldAddr)
	if !ok {
		return "", nil, 0, "", false
	}
	sn, st := fx.W.structOfPtr(fa.X.Type())
	if st == nil {
		return "", nil, 0, "", false
	}
	base := fx.val(fa.X)
	ref := base.S
	if ref == "" && base.P != nil {
		ref = base.P.Ref
	}
	if ref == "" {
		return "", nil, 0, "", false
	}
	return sn, st, fa.Field, ref, true
}

// releaseOrderObligations: for every call of a releaser on value v, no value derived from v (result
// of a method of v that carries references, possibly stored into a field) is used afterwards.
func releaseOrderObligations(w *World) []*Obligation {
	var out []*Obligation
	releasers := map[string]bool{}
	for _, r := range expandFuncList(w, w.Contracts.Lists["releasers"]) {
		releasers[r] = true
	}
	reads := w.readSets()
	for _, name := range sortedKeys(w.Funcs) {
		fn := w.Funcs[name]
		for _, b := range fn.Blocks {
			for idx, in := range b.Instrs {
				call, ok := in.(*ssa.Call)
				if !ok {
					continue
				}
				callee := call.Common().StaticCallee()
				if callee == nil || !releasers[calleeName(callee)] || len(call.Call.Args) == 0 {
					continue
				}
				v := call.Call.Args[0]
				// heaps filled from v: fields that received results of calls on v
				tainted := map[string]string{}
				for _, bb := range fn.Blocks {
					for _, in2 := range bb.Instrs {
						st, ok := in2.(*ssa.Store)
						if !ok {
							continue
						}
						if derivedFrom(st.Val, v, 0) {
							if fa, ok := st.Addr.(*ssa.FieldAddr); ok {
								sn, stt := w.structOfPtr(fa.X.Type())
								if stt != nil {
									tainted[fieldHeapName(sn, stt, fa.Field)] = sn + "." + stt.Field(fa.Field).Name()
								}
							}
						}
					}
				}
				// uses after the release on any path
				after := instrsAfter(fn, b, idx)
				bad := ""
				for _, in3 := range after {
					// direct use of a derived register
					var ops []*ssa.Value
					for _, op := range in3.Operands(ops) {
						if op != nil && *op != nil && *op != v && derivedFrom(*op, v, 0) {
							if _, isStore := in3.(*ssa.Store); !isStore {
								bad = "value derived from the released object is used"
							}
						}
					}
					if c3, ok := in3.(ssa.CallInstruction); ok {
						ts, _ := w.callTargets(c3.Common())
						for _, t := range ts {
							for h, label := range tainted {
								if reads[t][h] {
									bad = "call of " + displayName(t) + " reads " + label + ", which holds memory owned by the released object"
								}
							}
						}
					}
				}
				// the object itself goes back to the pool once: a second release (explicit, or the
				// pending deferred one) would put it there twice, and two later owners would share it
				deferred := false
				for _, bb := range fn.Blocks {
					for _, in2 := range bb.Instrs {
						if d, ok := in2.(*ssa.Defer); ok {
							if dc := d.Call.StaticCallee(); dc != nil && releasers[calleeName(dc)] && len(d.Call.Args) > 0 && d.Call.Args[0] == v {
								deferred = true
							}
						}
					}
				}
				for _, in3 := range after {
					switch y := in3.(type) {
					case *ssa.Call:
						if yc := y.Call.StaticCallee(); yc != nil && releasers[calleeName(yc)] && len(y.Call.Args) > 0 && y.Call.Args[0] == v {
							bad = "the object is released a second time"
						}
					case *ssa.RunDefers:
						if deferred {
							bad = "the object is released here and again by the deferred release"
						}
					}
				}
				goal := "true"
				if bad != "" {
					goal = "false"
				}
				pos, src := w.posAndSrc(in)
				out = append(out, &Obligation{Name: fmt.Sprintf("%s/release#%d", name, len(out)+1), Kind: "release", Func: name, Pos: pos, Src: src, Goal: goal, PC: "true", Props: []string{"C02", "C01"},
					Comment: "nothing owned by the object is used after " + calleeName(callee) + " hands it back to its pool" + ifs(bad != "", " — "+bad, ""), Custom: "(assert " + not(goal) + ")"})
			}
		}
	}
	// stable names per function
	cnt := map[string]int{}
	for _, o := range out {
		cnt[o.Func]++
		o.Name = fmt.Sprintf("%s/release#%d", o.Func, cnt[o.Func])
	}
	return out
}

func ifs(c bool, a, b string) string {
	if c {
		return a
	}
	return b
}

// derivedFrom: x is v, a field/element of v, or the reference-carrying result of a call with v as
// an argument.
func derivedFrom(x, v ssa.Value, depth int) bool {
	if x == v {
		return true
	}
	if depth > 6 {
		return false
	}
	switch y := x.(type) {
	case *ssa.Extract:
		// only components that carry references into the released object (slices, pointers, maps)
		return carriesRefs(y.Type()) && derivedFrom(y.Tuple, v, depth+1)
	case *ssa.Call:
		if !carriesRefs(y.Type()) {
			return false
		}
		for _, a := range y.Call.Args {
			if a == v {
				return true
			}
		}
	case *ssa.FieldAddr:
		return derivedFrom(y.X, v, depth+1)
	case *ssa.UnOp:
		return derivedFrom(y.X, v, depth+1)
	case *ssa.Slice:
		return derivedFrom(y.X, v, depth+1)
	case *ssa.Phi:
		for _, e := range y.Edges {
			if e != x && derivedFrom(e, v, depth+1) {
				return true
			}
		}
	}
	return false
}

func carriesRefs(t types.Type) bool {
	switch u := t.Underlying().(type) {
	case *types.Slice, *types.Pointer, *types.Map:
		return true
	case *types.Tuple:
		for i := 0; i < u.Len(); i++ {
			if carriesRefs(u.At(i).Type()) {
				return true
			}
		}
	}
	return false
}

// instrsAfter: instructions that can execute after position idx of block b.
func instrsAfter(fn *ssa.Function, b *ssa.BasicBlock, idx int) []ssa.Instruction {
	var out []ssa.Instruction
	out = append(out, b.Instrs[idx+1:]...)
	seen := map[int]bool{}
	stack := append([]*ssa.BasicBlock{}, b.Succs...)
	for len(stack) > 0 {
		x := stack[len(stack)-1]
		stack = stack[:len(stack)-1]
		if seen[x.Index] {
			continue
		}
		seen[x.Index] = true
		out = append(out, x.Instrs...)
		stack = append(stack, x.Succs...)
	}
	return out
}

// readSets: heaps (struct fields) possibly read by each function, transitively.
func (w *World) readSets() map[*ssa.Function]map[string]bool {
	rs := map[*ssa.Function]map[string]bool{}
	for _, f := range w.AllFuncs {
		m := map[string]bool{}
		for _, b := range f.Blocks {
			for _, in := range b.Instrs {
				if u, ok := in.(*ssa.UnOp); ok && u.Op == token.MUL {
					if fa, ok := u.X.(*ssa.FieldAddr); ok {
						sn, st := w.structOfPtr(fa.X.Type())
						if st != nil {
							m[fieldHeapName(sn, st, fa.Field)] = true
						}
					}
				}
			}
		}
		rs[f] = m
	}
	for changed := true; changed; {
		changed = false
		for _, f := range w.AllFuncs {
			for _, b := range f.Blocks {
				for _, in := range b.Instrs {
					c, ok := in.(ssa.CallInstruction)
					if !ok {
						continue
					}
					ts, _ := w.callTargets(c.Common())
					for _, t := range ts {
						for k := range rs[t] {
							if !rs[f][k] {
								rs[f][k] = true
								changed = true
							}
						}
					}
				}
			}
		}
	}
	return rs
}

// releaseOwnedObligations: what goes back to a pool must belong to the activation that hands it
// back - it is a parameter (the caller passed ownership), or it was taken from a pool or allocated
// here. An object read out of memory that others can reach (a field of the engine, an entry of the
// template cache, a child of a published tree) may still be in use by another render: releasing it
// empties it under that render's feet and hands it to the next parse. Release methods themselves
// (which hand back the components of their receiver) are exempt.
func releaseOwnedObligations(w *World) []*Obligation {
	var out []*Obligation
	releasers := map[string]bool{}
	for _, r := range expandFuncList(w, w.Contracts.Lists["releasers"]) {
		releasers[r] = true
	}
	isReleaser := func(c *ssa.CallCommon) (string, bool) {
		if c.IsInvoke() {
			if c.Method.Name() == "Release" {
				return "Release (interface)", true
			}
			return "", false
		}
		f := c.StaticCallee()
		if f == nil || f.Pkg == nil || f.Pkg != w.Pkg {
			return "", false
		}
		n := calleeName(f)
		if releasers[n] || f.Name() == "Release" || (strings.HasPrefix(f.Name(), "Release") && f.Signature.Recv() == nil && f.Signature.Params().Len() == 1) {
			return n, true
		}
		return "", false
	}
	cnt := map[string]int{}
	for _, name := range sortedKeys(w.Funcs) {
		fn := w.Funcs[name]
		if fn.Name() == "Release" || strings.HasPrefix(fn.Name(), "Release") || releasers[name] {
			continue
		}
		for _, b := range fn.Blocks {
			for _, in := range b.Instrs {
				ci, ok := in.(ssa.CallInstruction)
				if !ok {
					continue
				}
				c := ci.Common()
				rn, ok := isReleaser(c)
				if !ok {
					continue
				}
				var v ssa.Value
				if c.IsInvoke() {
					v = c.Value
				} else if len(c.Args) > 0 {
					v = c.Args[0]
				}
				if v == nil {
					continue
				}
				bad := loadedFromMemory(v, map[ssa.Value]bool{})
				goal := "true"
				if bad {
					goal = "false"
				}
				cnt[name]++
				pos, src := w.posAndSrc(in)
				out = append(out, &Obligation{Name: fmt.Sprintf("%s/release-owned#%d", name, cnt[name]), Kind: "release-owned", Func: name, Pos: pos, Src: src, Goal: goal, PC: "true", Props: []string{"C02", "C01"},
					Comment: "the object handed to " + rn + " belongs to this activation (a parameter, or taken from a pool or allocated here), not read out of shared memory" + ifs(bad, " — it is loaded from a field, a map or a slice that others can reach", ""), Custom: "(assert " + not(goal) + ")"})
			}
		}
	}
	return out
}

// loadedFromMemory: the value is (on some path) the result of reading a field, a map entry or a
// slice element - of anything but a local variable.
func loadedFromMemory(v ssa.Value, seen map[ssa.Value]bool) bool {
	if seen[v] {
		return false
	}
	seen[v] = true
	switch x := v.(type) {
	case *ssa.UnOp:
		if x.Op != token.MUL {
			return loadedFromMemory(x.X, seen)
		}
		switch a := x.X.(type) {
		case *ssa.Alloc:
			// a local variable: what was stored into it
			if refs := a.Referrers(); refs != nil {
				for _, r := range *refs {
					if st, ok := r.(*ssa.Store); ok && st.Addr == a && loadedFromMemory(st.Val, seen) {
						return true
					}
				}
			}
			return false
		case *ssa.FieldAddr, *ssa.IndexAddr, *ssa.Global:
			_ = a
			return true
		}
		return true
	case *ssa.Lookup, *ssa.Index, *ssa.Field:
		return true
	case *ssa.Next:
		return true
	case *ssa.Extract:
		return loadedFromMemory(x.Tuple, seen)
	case *ssa.Phi:
		for _, e := range x.Edges {
			if loadedFromMemory(e, seen) {
				return true
			}
		}
	case *ssa.ChangeInterface:
		return loadedFromMemory(x.X, seen)
	case *ssa.MakeInterface:
		return loadedFromMemory(x.X, seen)
	case *ssa.TypeAssert:
		return loadedFromMemory(x.X, seen)
	case *ssa.ChangeType:
		return loadedFromMemory(x.X, seen)
	}
	return false
}
