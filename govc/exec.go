package main

// Symbolic execution of one SSA function into verification conditions.
// See DESIGN.md §2.3/§2.4 and Appendix A for the translation this implements.

import (
	"fmt"
	"go/constant"
	"go/token"
	"go/types"
	"regexp"
	"sort"
	"strconv"
	"strings"

	"golang.org/x/tools/go/ssa"
)

// ---------------------------------------------------------------- values

type PlaceKind int

const (
	PField   PlaceKind = iota // field of a struct (by ref or inside another place)
	PElem                     // element of a backing array
	PCell                     // cell holding a non-struct value (or whole struct by ref when Elem is struct)
	PArr                      // pointer to an array object (backing array ref)
	POpaque                   // materialised interior pointer: nothing known
	PStrByte                  // byte of a string reached through unsafe.StringData / unsafe.Add (read only)
)

type Place struct {
	Kind   PlaceKind
	Base   *Place // PField inside another place (struct by value)
	Ref    string // PField by ref / PCell / PArr: object identity
	SName  string // struct name for field heaps
	Struct *types.Struct
	Field  int
	Arr    string // PElem: backing array ref
	Idx    string // PElem: absolute index in backing array
	N      int64  // PArr: array length
	Elem   types.Type
}

type Val struct {
	T   types.Type
	S   string
	P   *Place
	Tup []Val
}

// ---------------------------------------------------------------- obligations

type Obligation struct {
	Name    string // stable name
	Kind    string // idx, slice, assert, div, nilmap, ovf, conv, pre, post, inv-entry, inv-pres, dec, frame, ...
	Func    string
	Pos     string // file:line:col
	Src     string // source snippet
	Props   []string
	Goal    string // SMT Bool that must hold
	PC      string // path condition
	prefix  int    // number of ctx.lines visible
	fx      *FnExec
	Extra   map[string]string // replay hints: names of model symbols
	Answer  *SolverAnswer
	Comment string
	Custom  string // complete query text (relational obligations)
}

// ---------------------------------------------------------------- per-function context

type heapState map[string]string // heap name -> current version term

type blockState struct {
	pc   string
	heap heapState
	gh   map[string]string // ghost variables
	done bool
}

type FnExec struct {
	W              *World
	Fn             *ssa.Function
	C              *Contract
	snaps          map[string]cval   // loop snapshots in force (name -> value at the loop head)
	noAssumeNext   bool              // the next obligation is a recorded finding: check it, do not assume it
	renames        map[string]string // locals renamed since the contracts were written: current name -> contract name
	lines          []string          // declarations/definitions/assumptions in order
	declared       map[string]bool   // heap arrays & misc symbols declared
	regs           map[ssa.Value]Val // SSA registers
	bs             map[*ssa.BasicBlock]*blockState
	edgeCond       map[[2]int]string
	cur            *blockState
	curBlock       *ssa.BasicBlock
	nfresh         int
	obls           []*Obligation
	kindOrd        map[string]int
	heap0          heapState // heap at entry (for old())
	params         map[string]Val
	fresh          []string // refs allocated in this activation
	checked        bool     // arith checked
	backEdge       map[[2]int]bool
	loopHead       map[int]*loopInfo
	retVals        [][]Val
	deferred       []deferredCall
	recordBranches bool
	branches       []branchRec
	returns        []retRec
	frame          []modTarget
	frameOK        bool
	nalloc         int
	strConst       map[string]string
	hashStated     map[int]bool // type tags for which (hashable tag) has been stated
	tagsStated     []int
	ifacePreds     map[string]types.Type // implements_<I> predicates in use
	atcallHit      map[int]bool
	autoDec        map[int]*CExpr // termination measures derived from loop guards, by loop ordinal
	instantiate    bool           // contract flag `instantiate yes` (instantiate.go)
	qfacts         []qfact        // quantified facts assumed so far (instantiate.go)
	inTypeInv      bool
	callOrd        map[ssa.Instruction]int
	outside        []string // reasons the function leaves the supported subset
	notes          []string
	entryGh        map[string]string
	inlDepth       int
	inlStack       []*ssa.Function // callers of the helper being executed in place (inline.go)
	inlRets        *[]inlRet       // returns of the helper being executed in place
	rootFn         *ssa.Function   // the function under contract while a helper is executed in place
	namePrefix     string          // prefix of block-indexed SMT names while a helper is executed in place
	nInl           int
	// hooks for families
	onCall     func(fx *FnExec, call ssa.CallInstruction, args []Val, res *Val)
	onReturn   func(fx *FnExec, ret *ssa.Return, vals []Val)
	onStore    func(fx *FnExec, instr ssa.Instruction, pl *Place, v Val)
	onLoad     func(fx *FnExec, instr *ssa.UnOp, pl *Place)
	onEntry    func(fx *FnExec)
	ghostTouch func(call ssa.CallInstruction) bool // does this call update a ghost? (nil = every call may)
	rely       map[string]func(before, after string) string
	hookGhost  string          // name of the ghost updated by the family's onCall hook
	private    []privateObj    // fresh objects that never escape: unchanged by any call
	noFrame    map[string]bool // private objects written inside the loop whose head is being entered
}

// privateObj: an object allocated by this activation whose reference is never passed on or stored.
type privateObj struct {
	ref   string
	heaps []string
	def   ssa.Value // the allocation (its referrers are the only instructions that can write the object)
}

type deferredCall struct {
	in    *ssa.Defer
	args  []Val
	block *ssa.BasicBlock
}

type loopInfo struct {
	head    *ssa.BasicBlock
	body    map[int]bool
	ordinal int
	measure string // decreases value at head
	hasDec  bool
	clears  ssa.Value // recognised idiom "for k := range m { delete(m, k) }": the map being emptied
}

func (fx *FnExec) emit(format string, a ...any) {
	fx.lines = append(fx.lines, fmt.Sprintf(format, a...))
}

func (fx *FnExec) freshName(prefix string) string {
	fx.nfresh++
	return fmt.Sprintf("%s_%d", prefix, fx.nfresh)
}

// declareConst declares a fresh unconstrained constant of the sort.
func (fx *FnExec) havoc(prefix, sort string) string {
	n := fx.freshName(prefix)
	fx.emit("(declare-const %s %s)", n, sort)
	return n
}

func (fx *FnExec) define(prefix, sort, term string) string {
	// keep small terms inline
	if len(term) < 24 && !strings.Contains(term, " ") {
		return term
	}
	n := fx.freshName(prefix)
	if sort == "Int" && (strings.HasPrefix(term, "(+ ") || strings.HasPrefix(term, "(- ")) {
		// an integer sum is named by a constant, not a macro: as a macro it is flattened into the
		// index expressions it occurs in ((+ off (+ i 1)) becomes (+ off i 1)) and quantified
		// facts with the pattern (+ off j) no longer match it
		fx.emit("(declare-const %s Int)", n)
		fx.emit("(assert (= %s %s))", n, term)
		return n
	}
	fx.emit("(define-fun %s () %s %s)", n, sort, term)
	return n
}

func (fx *FnExec) assume(fact string) {
	if fact == "true" {
		return
	}
	if fx.instantiate {
		fx.collectForalls(fact, nil, 0)
	}
	fx.emit("(assert %s)", implies(fx.cur.pc, fact))
}

func (fx *FnExec) assumeGlobal(fact string) {
	if fact == "true" {
		return
	}
	if fx.instantiate {
		save := fx.cur.pc
		fx.cur.pc = "true"
		fx.collectForalls(fact, nil, 0)
		fx.cur.pc = save
	}
	fx.emit("(assert %s)", fact)
}

// oblige records an obligation under the current path condition and then assumes it.
func (fx *FnExec) oblige(kind, goal string, instr ssa.Instruction, comment string) *Obligation {
	if goal == "true" {
		// trivially true obligations are still counted (they are discharged syntactically)
	}
	pos, src := "", ""
	if instr != nil {
		pos, src = fx.W.posAndSrc(instr)
	}
	o := &Obligation{Kind: kind, Func: fx.root().String(), Goal: goal, PC: fx.cur.pc, prefix: len(fx.lines), fx: fx, Pos: pos, Src: src, Comment: comment}
	fx.obls = append(fx.obls, o)
	// obligations at a return are independent of each other (the path ends there); elsewhere
	// execution continues only if the obligation held
	if _, isRet := instr.(*ssa.Return); !isRet && !fx.noAssumeNext {
		fx.assume(goal)
	}
	return o
}

// ---------------------------------------------------------------- sorts

func (fx *FnExec) sortOf(t types.Type) string { return fx.W.sortOf(t) }

func (w *World) sortOf(t types.Type) string {
	switch u := t.Underlying().(type) {
	case *types.Basic:
		switch {
		case u.Info()&types.IsBoolean != 0:
			return "Bool"
		case u.Info()&types.IsInteger != 0:
			return "Int"
		case u.Info()&types.IsString != 0:
			return "Str"
		case u.Info()&types.IsFloat != 0:
			return "F"
		case u.Kind() == types.UnsafePointer:
			return "Int"
		case u.Kind() == types.UntypedNil:
			return "Int"
		}
		return "U"
	case *types.Pointer, *types.Map, *types.Chan, *types.Signature:
		return "Int"
	case *types.Slice:
		return "Slice"
	case *types.Interface:
		return "Iface"
	case *types.Struct:
		return w.structSort(t, u)
	case *types.Array:
		return "(Array Int " + w.sortOf(u.Elem()) + ")"
	case *types.Tuple:
		return "U"
	}
	return "U"
}

type structInfo struct {
	sort   string
	name   string
	st     *types.Struct
	fields []string // accessor names
	fsorts []string
}

func (w *World) structName(t types.Type) string {
	if n, ok := t.(*types.Named); ok {
		name := n.Obj().Name()
		if n.Obj().Pkg() != nil && n.Obj().Pkg() != w.Pkg.Pkg {
			name = strings.ReplaceAll(n.Obj().Pkg().Path(), "/", "_") + "_" + name
		}
		return sanitize(name)
	}
	if a, ok := t.(*types.Alias); ok {
		return w.structName(types.Unalias(a))
	}
	key := t.Underlying().String()
	if id, ok := w.anonStructs[key]; ok {
		return id
	}
	id := fmt.Sprintf("anon%d", len(w.anonStructs))
	w.anonStructs[key] = id
	return id
}

func (w *World) structInfoOf(t types.Type) *structInfo {
	st := t.Underlying().(*types.Struct)
	name := w.structName(t)
	if si, ok := w.structs[name]; ok {
		return si
	}
	si := &structInfo{sort: "S_" + name, name: name, st: st}
	w.structs[name] = si // before recursion
	for i := 0; i < st.NumFields(); i++ {
		f := st.Field(i)
		fs := w.sortOf(f.Type())
		fname := sanitize(f.Name())
		if f.Name() == "_" {
			fname = fmt.Sprintf("blank%d", i)
		}
		si.fields = append(si.fields, fmt.Sprintf("%s.%s", si.sort, fname))
		si.fsorts = append(si.fsorts, fs)
	}
	w.structOrder = append(w.structOrder, name)
	return si
}

func (w *World) structSort(t types.Type, st *types.Struct) string {
	if st.NumFields() == 0 {
		return "U"
	}
	return w.structInfoOf(t).sort
}

// structDecls renders the datatype declarations in dependency order.
func (w *World) structDecls() string {
	var b strings.Builder
	for _, name := range w.structOrder {
		si := w.structs[name]
		b.WriteString("(declare-datatypes ((" + si.sort + " 0)) (((mk-" + si.sort)
		for i := range si.fields {
			b.WriteString(" (" + si.fields[i] + " " + si.fsorts[i] + ")")
		}
		b.WriteString("))))\n")
	}
	return b.String()
}

func sortID(s string) string {
	return sanitize(strings.ReplaceAll(strings.ReplaceAll(s, "(", ""), ")", ""))
}

// zero value term of a type
func (fx *FnExec) zero(t types.Type) string {
	switch u := t.Underlying().(type) {
	case *types.Basic:
		switch {
		case u.Info()&types.IsBoolean != 0:
			return "false"
		case u.Info()&types.IsInteger != 0:
			return "0"
		case u.Info()&types.IsString != 0:
			return fx.strConstTerm("")
		case u.Info()&types.IsFloat != 0:
			return fx.W.floatConst(fx, "0")
		case u.Kind() == types.UnsafePointer, u.Kind() == types.UntypedNil:
			return "0"
		}
	case *types.Pointer, *types.Map, *types.Chan, *types.Signature:
		return "0"
	case *types.Slice:
		return "(mk-slice 0 0 0 0)"
	case *types.Interface:
		return "(mk-iface 0 0)"
	case *types.Struct:
		if u.NumFields() == 0 {
			return fx.globalConst("u_zero", "U")
		}
		si := fx.W.structInfoOf(t)
		parts := []string{"(mk-" + si.sort}
		for i := 0; i < u.NumFields(); i++ {
			parts = append(parts, fx.zero(u.Field(i).Type()))
		}
		return strings.Join(parts, " ") + ")"
	case *types.Array:
		return "((as const " + fx.sortOf(t) + ") " + fx.zero(u.Elem()) + ")"
	}
	return fx.globalConst("u_zero", "U")
}

func (fx *FnExec) globalConst(name, sort string) string {
	if !fx.declared[name] {
		fx.declared[name] = true
		fx.emit("(declare-const %s %s)", name, sort)
	}
	return name
}

func (w *World) floatConst(fx *FnExec, lit string) string {
	name := "fconst_" + sanitize(lit)
	if !fx.declared[name] {
		fx.declared[name] = true
		fx.emit("(declare-const %s F)", name)
	}
	return name
}

// string constants: one symbol per literal, with length and bytes asserted.
func (fx *FnExec) strConstTerm(s string) string {
	if n, ok := fx.strConst[s]; ok {
		return n
	}
	n := fmt.Sprintf("str_%d", len(fx.strConst))
	fx.strConst[s] = n
	fx.emit("(declare-const %s Str) ; %s", n, strconv.Quote(truncate(s, 60)))
	fx.emit("(assert (= (slen %s) %d))", n, len(s))
	if len(s) <= 48 {
		for i := 0; i < len(s); i++ {
			fx.emit("(assert (= (sat %s %d) %d))", n, i, s[i])
		}
	}
	// distinct from all other literals
	for o, on := range fx.strConst {
		if o != s {
			fx.emit("(assert (distinct %s %s))", n, on)
		}
	}
	return n
}

func truncate(s string, n int) string {
	if len(s) > n {
		return s[:n] + "…"
	}
	return s
}

// ---------------------------------------------------------------- heap access

func (fx *FnExec) heapArr(name, sort string) string {
	if v, ok := fx.cur.heap[name]; ok {
		return v
	}
	// first use: the initial heap array
	init := name + "_0"
	if !fx.declared[init] {
		fx.declared[init] = true
		fx.emit("(declare-const %s %s)", init, sort)
		fx.W.heapSorts[name] = sort
	}
	fx.cur.heap[name] = init
	if _, ok := fx.heap0[name]; !ok {
		fx.heap0[name] = init
	}
	return init
}

func (fx *FnExec) setHeap(name, sort, term string) {
	fx.heapArr(name, sort) // ensure declared
	n := fx.freshName(name + "_v")
	fx.emit("(define-fun %s () %s %s)", n, sort, term)
	fx.cur.heap[name] = n
}

func (fx *FnExec) havocHeap(name string) {
	sort, ok := fx.W.heapSorts[name]
	if !ok {
		return
	}
	before := fx.heapArr(name, sort)
	n := fx.freshName(name + "_h")
	fx.emit("(declare-const %s %s)", n, sort)
	fx.cur.heap[name] = n
	// objects that never escaped this activation cannot be written by anybody else (at a loop head
	// this does not hold for the ones the loop body itself writes: noFrame)
	for _, po := range fx.private {
		if fx.noFrame[po.ref] {
			continue
		}
		for _, h := range po.heaps {
			if h == name {
				fx.assumeGlobal("(= (select " + n + " " + po.ref + ") (select " + before + " " + po.ref + "))")
			}
		}
	}
	// rely conditions: what every function of the package guarantees about this heap (each
	// guarantee is itself an obligation of the family that installs it)
	if r, ok := fx.rely[name]; ok {
		fx.assumeGlobal(r(before, n))
	}
	// rely_tree: nodes, templates and []Node elements that existed when this function was entered
	// are not written by anything it calls (every function on the render path guarantees it: the
	// `tree` obligations of C01)
	if fx.C != nil && fx.C.Flags["rely_tree"] != "" && treeHeap(name) {
		fx.assumeGlobal("(forall ((qr Int)) (! (=> (< qr " + fx.allocBase() + ") (= (select " + n + " qr) (select " + before + " qr))) :pattern ((select " + n + " qr))))")
	}
}

func fieldHeapName(sname string, st *types.Struct, i int) string {
	return "H_" + sname + "_" + sanitize(st.Field(i).Name())
}

func (fx *FnExec) fieldHeap(sname string, st *types.Struct, i int) (string, string) {
	name := fieldHeapName(sname, st, i)
	sort := "(Array Int " + fx.sortOf(st.Field(i).Type()) + ")"
	return name, sort
}

func (fx *FnExec) elemHeap(elem types.Type) (string, string) {
	es := fx.sortOf(elem)
	return fx.W.elemHeapName(elem), "(Array Int (Array Int " + es + "))"
}

func (fx *FnExec) cellHeap(elem types.Type) (string, string) {
	es := fx.sortOf(elem)
	return "C_" + sortID(es), "(Array Int " + es + ")"
}

// placeOf interprets a pointer value as a place.
func (fx *FnExec) placeOf(v Val) *Place {
	if v.P != nil {
		return v.P
	}
	pt, ok := v.T.Underlying().(*types.Pointer)
	if !ok {
		return &Place{Kind: POpaque, Elem: v.T}
	}
	el := pt.Elem()
	if arr, ok := el.Underlying().(*types.Array); ok {
		return &Place{Kind: PArr, Arr: v.S, N: arr.Len(), Elem: el}
	}
	return &Place{Kind: PCell, Ref: v.S, Elem: el}
}

func (fx *FnExec) load(p *Place) string {
	switch p.Kind {
	case PStrByte:
		return "(sat " + p.Ref + " " + p.Idx + ")"
	case PField:
		if p.Base != nil {
			base := fx.load(p.Base)
			si := fx.W.structInfoOf(p.Base.Elem)
			return "(" + si.fields[p.Field] + " " + base + ")"
		}
		name, sort := fx.fieldHeap(p.SName, p.Struct, p.Field)
		return "(select " + fx.heapArr(name, sort) + " " + p.Ref + ")"
	case PElem:
		name, sort := fx.elemHeap(p.Elem)
		return "(select (select " + fx.heapArr(name, sort) + " " + p.Arr + ") " + p.Idx + ")"
	case PCell:
		if st, ok := p.Elem.Underlying().(*types.Struct); ok && st.NumFields() > 0 {
			si := fx.W.structInfoOf(p.Elem)
			parts := []string{"(mk-" + si.sort}
			for i := 0; i < st.NumFields(); i++ {
				name, sort := fx.fieldHeap(si.name, st, i)
				parts = append(parts, "(select "+fx.heapArr(name, sort)+" "+p.Ref+")")
			}
			return strings.Join(parts, " ") + ")"
		}
		name, sort := fx.cellHeap(p.Elem)
		return "(select " + fx.heapArr(name, sort) + " " + p.Ref + ")"
	case PArr:
		name, sort := fx.elemHeap(p.Elem.Underlying().(*types.Array).Elem())
		return "(select " + fx.heapArr(name, sort) + " " + p.Arr + ")"
	}
	return fx.havoc("opq", fx.sortOf(p.Elem))
}

func (fx *FnExec) store(p *Place, v string) {
	switch p.Kind {
	case PField:
		if p.Base != nil {
			base := fx.load(p.Base)
			si := fx.W.structInfoOf(p.Base.Elem)
			parts := []string{"(mk-" + si.sort}
			for i := range si.fields {
				if i == p.Field {
					parts = append(parts, v)
				} else {
					parts = append(parts, "("+si.fields[i]+" "+base+")")
				}
			}
			fx.store(p.Base, strings.Join(parts, " ")+")")
			return
		}
		name, sort := fx.fieldHeap(p.SName, p.Struct, p.Field)
		fx.setHeap(name, sort, "(store "+fx.heapArr(name, sort)+" "+p.Ref+" "+v+")")
	case PElem:
		name, sort := fx.elemHeap(p.Elem)
		h := fx.heapArr(name, sort)
		fx.setHeap(name, sort, "(store "+h+" "+p.Arr+" (store (select "+h+" "+p.Arr+") "+p.Idx+" "+v+"))")
	case PCell:
		if st, ok := p.Elem.Underlying().(*types.Struct); ok && st.NumFields() > 0 {
			si := fx.W.structInfoOf(p.Elem)
			for i := 0; i < st.NumFields(); i++ {
				name, sort := fx.fieldHeap(si.name, st, i)
				fx.setHeap(name, sort, "(store "+fx.heapArr(name, sort)+" "+p.Ref+" ("+si.fields[i]+" "+v+"))")
			}
			return
		}
		name, sort := fx.cellHeap(p.Elem)
		fx.setHeap(name, sort, "(store "+fx.heapArr(name, sort)+" "+p.Ref+" "+v+")")
	case PArr:
		name, sort := fx.elemHeap(p.Elem.Underlying().(*types.Array).Elem())
		fx.setHeap(name, sort, "(store "+fx.heapArr(name, sort)+" "+p.Arr+" "+v+")")
	case POpaque:
		// store through an unknown interior pointer: havoc every heap of that sort
		es := fx.sortOf(p.Elem)
		for name, s := range fx.W.heapSorts {
			if strings.HasSuffix(s, " "+es+")") || strings.HasSuffix(s, " "+es+"))") {
				fx.havocHeap(name)
			}
		}
	}
}

// materialise turns a pointer-with-place into an SMT Int.
func (fx *FnExec) materialise(v Val) string {
	if v.S != "" {
		return v.S
	}
	if v.P == nil {
		if v.Tup != nil {
			return fx.havoc("tup", "U")
		}
		return fx.havoc("val", fx.sortOf(v.T))
	}
	switch v.P.Kind {
	case PCell:
		return v.P.Ref
	case PArr:
		return v.P.Arr
	case PField:
		if v.P.Base == nil {
			// interior pointer to a field of a heap struct: opaque but deterministic
			name := "(fieldptr_" + v.P.SName + "_" + sanitize(v.P.Struct.Field(v.P.Field).Name()) + " " + v.P.Ref + ")"
			fn := "fieldptr_" + v.P.SName + "_" + sanitize(v.P.Struct.Field(v.P.Field).Name())
			if !fx.declared[fn] {
				fx.declared[fn] = true
				fx.emit("(declare-fun %s (Int) Int)", fn)
			}
			return name
		}
	}
	return fx.havoc("iptr", "Int")
}

// term returns the SMT term of a value (materialising places).
func (fx *FnExec) term(v Val) string {
	if v.S != "" {
		return v.S
	}
	return fx.materialise(v)
}

// ---------------------------------------------------------------- allocation

func (fx *FnExec) freshRef(why string) string {
	// Allocation model: every object that exists when the function is entered has a reference
	// below alloc_base (assumed for parameters and for values read from the initial heap); the
	// k-th object allocated by this activation is alloc_base + k.
	fx.allocBase()
	cnt := fx.allocCount()
	r := fx.freshName("new_" + why)
	fx.emit("(define-fun %s () Int (+ alloc_base %s 1))", r, cnt)
	fx.bumpAlloc()
	fx.fresh = append(fx.fresh, r)
	return r
}

// allocCount: the ghost allocation counter of the current state (objects allocated so far by this
// activation and its callees). Kept as an internal ghost so that it is merged at joins and
// havocked (monotonically) at loop heads.
func (fx *FnExec) allocCount() string {
	if v, ok := fx.cur.gh["$acnt"]; ok {
		return v
	}
	fx.cur.gh["$acnt"] = "0"
	return "0"
}

func (fx *FnExec) bumpAlloc() {
	cur := fx.allocCount()
	fx.cur.gh["$acnt"] = fx.define("acnt", "Int", "(+ "+cur+" 1)")
}

// adoptFresh: a reference returned by a callee/pool as a fresh object is numbered like an own
// allocation.
func (fx *FnExec) adoptFresh(term string) {
	fx.allocBase()
	fx.assume("(= " + term + " (+ alloc_base " + fx.allocCount() + " 1))")
	fx.bumpAlloc()
	fx.fresh = append(fx.fresh, term)
}

func (fx *FnExec) allocBase() string {
	if !fx.declared["alloc_base"] {
		fx.declared["alloc_base"] = true
		fx.emit("(declare-const alloc_base Int)")
		fx.emit("(assert (> alloc_base 0))")
	}
	return "alloc_base"
}

// refInv: the references contained in a value that existed before this activation are old.
func (fx *FnExec) refInv(t types.Type, term string) string {
	switch u := t.Underlying().(type) {
	case *types.Pointer, *types.Map, *types.Chan:
		return "(< " + term + " " + fx.allocBase() + ")"
	case *types.Slice:
		return "(< (s.arr " + term + ") " + fx.allocBase() + ")"
	case *types.Struct:
		if u.NumFields() == 0 {
			return "true"
		}
		si := fx.W.structInfoOf(t)
		var fs []string
		for i := 0; i < u.NumFields(); i++ {
			fs = append(fs, fx.refInv(u.Field(i).Type(), "("+si.fields[i]+" "+term+")"))
		}
		return and(fs...)
	}
	return "true"
}

func (fx *FnExec) knownRefs() []string {
	var out []string
	names := make([]string, 0, len(fx.params))
	for n := range fx.params {
		names = append(names, n)
	}
	sort.Strings(names)
	for _, n := range names {
		p := fx.params[n]
		switch p.T.Underlying().(type) {
		case *types.Pointer, *types.Map:
			if p.S != "" {
				out = append(out, p.S)
			}
		}
	}
	out = append(out, fx.fresh...)
	return out
}

func (fx *FnExec) allocOf(t types.Type, why string) Val {
	ptr := types.NewPointer(t)
	switch u := t.Underlying().(type) {
	case *types.Struct:
		r := fx.freshRef(why)
		if u.NumFields() > 0 {
			si := fx.W.structInfoOf(t)
			for i := 0; i < u.NumFields(); i++ {
				name, sort := fx.fieldHeap(si.name, u, i)
				fx.setHeap(name, sort, "(store "+fx.heapArr(name, sort)+" "+r+" "+fx.zero(u.Field(i).Type())+")")
			}
		}
		// a zero strings.Builder is empty (ghost content used by the contracts of its methods)
		if namedTypeName(t) == "strings.Builder" && fx.W.Contracts != nil && fx.W.Contracts.ghost("sb") != nil {
			cur, _ := fx.ghostVal(fx.cur.gh, "sb")
			fx.cur.gh["sb"] = fx.define("gh_sb", "(Array Int Str)", "(store "+cur+" "+r+" "+fx.strConstTerm("")+")")
		}
		return Val{T: ptr, S: r}
	case *types.Array:
		a := fx.freshRef(why)
		name, sort := fx.elemHeap(u.Elem())
		fx.setHeap(name, sort, "(store "+fx.heapArr(name, sort)+" "+a+" "+fx.zero(t)+")")
		return Val{T: ptr, P: &Place{Kind: PArr, Arr: a, N: u.Len(), Elem: t}}
	default:
		r := fx.freshRef(why)
		p := &Place{Kind: PCell, Ref: r, Elem: t}
		fx.store(p, fx.zero(t))
		return Val{T: ptr, P: p, S: r}
	}
}

// ---------------------------------------------------------------- range facts

func intRange(t types.Type) (lo, hi string, ok bool) {
	b, isb := t.Underlying().(*types.Basic)
	if !isb || b.Info()&types.IsInteger == 0 {
		return "", "", false
	}
	switch b.Kind() {
	case types.Int, types.Int64, types.UntypedInt:
		return "(- 9223372036854775808)", "9223372036854775807", true
	case types.Int32, types.UntypedRune:
		return "(- 2147483648)", "2147483647", true
	case types.Int16:
		return "(- 32768)", "32767", true
	case types.Int8:
		return "(- 128)", "127", true
	case types.Uint, types.Uint64, types.Uintptr:
		return "0", "18446744073709551615", true
	case types.Uint32:
		return "0", "4294967295", true
	case types.Uint16:
		return "0", "65535", true
	case types.Uint8:
		return "0", "255", true
	}
	return "", "", false
}

// typeInvariant returns the well-formedness fact of a value of type t (ranges, slice shape).
func (fx *FnExec) typeInvariant(t types.Type, term string) string {
	switch u := t.Underlying().(type) {
	case *types.Basic:
		if lo, hi, ok := intRange(t); ok {
			return "(and (<= " + lo + " " + term + ") (<= " + term + " " + hi + "))"
		}
		if u.Info()&types.IsString != 0 {
			return "(and (>= (slen " + term + ") 0) (<= (slen " + term + ") 4611686018427387904))"
		}
	case *types.Slice:
		return "(and (<= 0 (s.off " + term + ")) (<= 0 (s.len " + term + ")) (<= (s.len " + term + ") (s.cap " + term + ")) (>= (s.arr " + term + ") 0) (<= (s.cap " + term + ") 4611686018427387904))"
	case *types.Pointer, *types.Map, *types.Signature, *types.Chan:
		return "(>= " + term + " 0)"
	case *types.Struct:
		if u.NumFields() == 0 {
			return "true"
		}
		si := fx.W.structInfoOf(t)
		var fs []string
		for i := 0; i < u.NumFields(); i++ {
			f := fx.typeInvariant(u.Field(i).Type(), "("+si.fields[i]+" "+term+")")
			fs = append(fs, f)
		}
		return and(fs...)
	}
	return "true"
}

// loaded wraps a freshly read heap value with its type invariant (instantiated axiom).
func (fx *FnExec) loaded(t types.Type, term string) string {
	n := fx.define("ld", fx.sortOf(t), term)
	if inv := fx.typeInvariant(t, n); inv != "true" {
		fx.assume(inv)
	}
	// an object whose reference never left this activation cannot be found in memory
	if len(fx.private) > 0 {
		switch t.Underlying().(type) {
		case *types.Pointer, *types.Map:
			for _, po := range fx.private {
				fx.assume("(distinct " + n + " " + po.ref + ")")
			}
		case *types.Slice:
			for _, po := range fx.private {
				fx.assume("(distinct (s.arr " + n + ") " + po.ref + ")")
			}
		}
	}
	// object invariant of what was read (assumed only for objects older than this activation)
	if fx.typeInvOf(t) != nil {
		fx.assumeTypeInv(t, n, fx.cur.heap)
	}
	// a value read from an untouched initial heap array, out of an object that itself existed
	// before this activation, existed before this activation
	if initialHeapTerm(term) {
		if inv := fx.refInv(t, n); inv != "true" {
			if base := selectIndexOf(term); base != "" {
				fx.assume(implies("(< "+base+" "+fx.allocBase()+")", inv))
			}
		}
	}
	return n
}

// selectIndexOf: for "(select H idx)" with a simple heap symbol H returns idx; "" otherwise.
func selectIndexOf(term string) string {
	if !strings.HasPrefix(term, "(select ") {
		return ""
	}
	rest := term[len("(select ") : len(term)-1]
	h, j := readSexp(rest, 0)
	if strings.HasPrefix(h, "(") {
		// nested select: (select (select E arr) idx): the object is arr
		inner := strings.TrimSuffix(strings.TrimPrefix(h, "(select "), ")")
		_, k := readSexp(inner, 0)
		return strings.TrimSpace(inner[k:])
	}
	return strings.TrimSpace(rest[j:])
}

var heapVerRe = regexp.MustCompile(`[A-Z]+_[A-Za-z0-9_]+?_(v|h|m)_[0-9]+`)

// initialHeapTerm: the term selects only from initial heap versions (names ending in _0).
func initialHeapTerm(term string) bool {
	if !strings.HasPrefix(term, "(select ") {
		return false
	}
	return !heapVerRe.MatchString(term)
}

// ---------------------------------------------------------------- constants

func (fx *FnExec) constVal(c *ssa.Const) Val {
	t := c.Type()
	if c.Value == nil {
		return Val{T: t, S: fx.zero(t)}
	}
	switch u := t.Underlying().(type) {
	case *types.Basic:
		switch {
		case u.Info()&types.IsBoolean != 0:
			if constant.BoolVal(c.Value) {
				return Val{T: t, S: "true"}
			}
			return Val{T: t, S: "false"}
		case u.Info()&types.IsInteger != 0:
			return Val{T: t, S: smtBigStr(c.Value.ExactString())}
		case u.Info()&types.IsString != 0:
			return Val{T: t, S: fx.strConstTerm(constant.StringVal(c.Value))}
		case u.Info()&types.IsFloat != 0:
			return Val{T: t, S: fx.W.floatConst(fx, c.Value.ExactString())}
		}
	}
	return Val{T: t, S: fx.havoc("const", fx.sortOf(t))}
}

// ---------------------------------------------------------------- value lookup

func (fx *FnExec) val(v ssa.Value) Val {
	if r, ok := fx.regs[v]; ok {
		return r
	}
	switch x := v.(type) {
	case *ssa.Const:
		return fx.constVal(x)
	case *ssa.Global:
		return fx.globalPtr(x)
	case *ssa.Function:
		return Val{T: x.Type(), S: fx.W.funcRef(fx, x)}
	case *ssa.Builtin:
		return Val{T: x.Type(), S: "0"}
	case *ssa.FreeVar:
		// captured variable: pointer cell or value, unconstrained
		r := Val{T: x.Type(), S: fx.havoc("fv_"+sanitize(x.Name()), fx.sortOf(x.Type()))}
		fx.assumeGlobal(fx.typeInvariant(x.Type(), r.S))
		fx.regs[v] = r
		return r
	}
	// value not yet computed (e.g. use before def across unsupported instruction)
	r := Val{T: v.Type(), S: fx.havoc("undef", fx.sortOf(v.Type()))}
	fx.regs[v] = r
	return r
}

func (fx *FnExec) globalPtr(g *ssa.Global) Val {
	id := fx.W.globalID(g)
	ref := smtInt(int64(-id))
	elem := g.Type().(*types.Pointer).Elem()
	if _, ok := elem.Underlying().(*types.Struct); ok {
		return Val{T: g.Type(), S: ref}
	}
	if arr, ok := elem.Underlying().(*types.Array); ok {
		return Val{T: g.Type(), P: &Place{Kind: PArr, Arr: ref, N: arr.Len(), Elem: elem}}
	}
	return Val{T: g.Type(), S: ref, P: &Place{Kind: PCell, Ref: ref, Elem: elem}}
}

// ---------------------------------------------------------------- CFG preparation

func (fx *FnExec) prepareCFG() []*ssa.BasicBlock {
	fn := fx.Fn
	fx.prepareLoopsOnly()
	heads := fx.loopsInOrder()
	for i, li := range heads {
		li.ordinal = i + 1
	}
	// contracts number the loops of the tree they were written against; when the loops of this
	// function have since been reordered (an if/else flipped, a block moved), the ordinals follow
	// the loops, not the positions (loopsigs.go)
	if perm := loopRemap(displayName(fn), fn, heads); perm != nil {
		for i, li := range heads {
			if perm[i] != i {
				fx.notes = append(fx.notes, fmt.Sprintf("loop-reordered:%d->%d", i+1, perm[i]+1))
			}
			li.ordinal = perm[i] + 1
		}
	}
	// topological order ignoring back edges (reverse postorder)
	var order []*ssa.BasicBlock
	seen := map[int]bool{}
	var dfs func(b *ssa.BasicBlock)
	dfs = func(b *ssa.BasicBlock) {
		seen[b.Index] = true
		for _, s := range b.Succs {
			if fx.backEdge[[2]int{b.Index, s.Index}] || seen[s.Index] {
				continue
			}
			dfs(s)
		}
		order = append(order, b)
	}
	if len(fn.Blocks) > 0 {
		dfs(fn.Blocks[0])
	}
	if fn.Recover != nil && !seen[fn.Recover.Index] {
		// recover block not modelled
	}
	for i, j := 0, len(order)-1; i < j; i, j = i+1, j-1 {
		order[i], order[j] = order[j], order[i]
	}
	return order
}

// prepareLoopsOnly: back edges and natural loops.
func (fx *FnExec) prepareLoopsOnly() {
	fn := fx.Fn
	fx.backEdge = map[[2]int]bool{}
	fx.loopHead = map[int]*loopInfo{}
	// back edges: target dominates source
	for _, b := range fn.Blocks {
		for _, s := range b.Succs {
			if s.Dominates(b) {
				fx.backEdge[[2]int{b.Index, s.Index}] = true
				li := fx.loopHead[s.Index]
				if li == nil {
					li = &loopInfo{head: s, body: map[int]bool{s.Index: true}}
					fx.loopHead[s.Index] = li
				}
				// natural loop: nodes reaching b without passing s
				stack := []*ssa.BasicBlock{b}
				for len(stack) > 0 {
					x := stack[len(stack)-1]
					stack = stack[:len(stack)-1]
					if li.body[x.Index] {
						continue
					}
					li.body[x.Index] = true
					stack = append(stack, x.Preds...)
				}
			}
		}
	}
}

// loopsInOrder: loops in source order of the head block's first position.
func (fx *FnExec) loopsInOrder() []*loopInfo {
	var heads []*loopInfo
	for _, li := range fx.loopHead {
		heads = append(heads, li)
	}
	sort.Slice(heads, func(i, j int) bool {
		pi, pj := fx.loopPos(heads[i]), fx.loopPos(heads[j])
		if pi != pj {
			return pi < pj
		}
		return heads[i].head.Index < heads[j].head.Index
	})
	return heads
}

// loopPos: source position of a loop: the smallest position in its head block, or, when the head
// carries no position at all (range loops: only phis and the length comparison), the smallest
// position in its body.
func (fx *FnExec) loopPos(li *loopInfo) token.Pos {
	if p := fx.blockPos(li.head); p.IsValid() {
		return p
	}
	best := token.NoPos
	for _, b := range fx.Fn.Blocks {
		if !li.body[b.Index] {
			continue
		}
		if p := fx.blockPos(b); p.IsValid() && (best == token.NoPos || p < best) {
			best = p
		}
	}
	return best
}

func (fx *FnExec) blockPos(b *ssa.BasicBlock) token.Pos {
	best := token.NoPos
	// the position of a loop is best approximated by the smallest position in its head
	for _, in := range b.Instrs {
		if p := in.Pos(); p.IsValid() && (best == token.NoPos || p < best) {
			best = p
		}
	}
	return best
}

// modifiedInLoop computes heap names possibly written inside the loop. iterFresh[name] is true when
// every write to that heap inside the loop goes to an object allocated inside the loop body
// itself (so that every object existing at loop entry is unchanged).
func (fx *FnExec) modifiedInLoop(li *loopInfo) (names map[string]bool, iterFresh map[string]bool, all bool) {
	names = map[string]bool{}
	other := map[string]bool{}
	for _, b := range fx.Fn.Blocks {
		if !li.body[b.Index] {
			continue
		}
		for _, in := range b.Instrs {
			ms, a := fx.W.instrMods(fx, in)
			if a {
				return nil, nil, true
			}
			fresh := fx.writeIsIterFresh(in, li)
			for _, m := range ms {
				names[m] = true
				if !fresh {
					other[m] = true
				}
			}
		}
	}
	iterFresh = map[string]bool{}
	for n := range names {
		if !other[n] {
			iterFresh[n] = true
		}
	}
	return names, iterFresh, false
}

// writeIsIterFresh: the instruction is a direct write whose target object is allocated by an
// instruction inside the loop body.
func (fx *FnExec) writeIsIterFresh(in ssa.Instruction, li *loopInfo) bool {
	var root ssa.Value
	switch x := in.(type) {
	case *ssa.Store:
		root = x.Addr
	case *ssa.MapUpdate:
		root = x.Map
	default:
		return false
	}
	for depth := 0; depth < 20; depth++ {
		switch r := root.(type) {
		case *ssa.FieldAddr:
			root = r.X
			continue
		case *ssa.IndexAddr:
			root = r.X
			continue
		case *ssa.Slice:
			root = r.X
			continue
		case *ssa.Alloc:
			return r.Block() != nil && li.body[r.Block().Index]
		case *ssa.MakeSlice:
			return li.body[r.Block().Index]
		case *ssa.MakeMap:
			return li.body[r.Block().Index]
		}
		return false
	}
	return false
}

// treeHeap: heaps that hold the parsed template tree.
func treeHeap(name string) bool {
	if name == "E_Node" || name == "E___Node" || strings.HasPrefix(name, "H_Template_") {
		return true
	}
	if strings.HasPrefix(name, "H_") {
		rest := name[2:]
		if i := strings.Index(rest, "_"); i > 0 && strings.HasSuffix(rest[:i], "Node") {
			return true
		}
	}
	return false
}
