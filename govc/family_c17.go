package main

// C17: failures surface as errors that wrap their cause (family F8).
//
// For every function on the render path, a ghost `pendErr` records the first non-nil error returned
// by a fallible call. At every return: pendErr == nil, or the returned error is non-nil and wraps
// pendErr. Loops carry pendErr == nil as invariant (the code returns at once). `wraps` is an
// uninterpreted reflexive-transitive relation, extended by fmt.Errorf("%w") and the contracts of
// the package's own wrappers.

import (
	"fmt"
	"go/constant"
	"go/types"
	"strings"

	"golang.org/x/tools/go/ssa"
)

func init() {
	families["C17"] = append(families["C17"], errFlowFamily)
	// C11: "ignore missing turns a template that does not exist into empty output while every other
	// failure is reported" is the error flow of the include tag
	families["C11"] = append(families["C11"], func(w *World, _ string) ([]*Obligation, []string) {
		obls, _ := errFlowFamily(w, "C17")
		var out []*Obligation
		for _, o := range obls {
			if strings.HasPrefix(o.Name, "(*IncludeNode).Render/") {
				o.Props = []string{"C11"}
				out = append(out, o)
			}
		}
		return out, []string{fmt.Sprintf("error flow of the include tag: %d obligations", len(out))}
	})
}

func expandFuncList(w *World, items []string) []string {
	var out []string
	seen := map[string]bool{}
	names := sortedKeys(w.Funcs)
	for _, it := range items {
		if strings.Contains(it, "%") {
			for _, n := range names {
				if pctMatch(it, n) && !seen[n] {
					seen[n] = true
					out = append(out, n)
				}
			}
			continue
		}
		if !seen[it] {
			seen[it] = true
			out = append(out, it)
		}
	}
	return out
}

func isErrorType(t types.Type) bool {
	n, ok := t.(*types.Named)
	return ok && n.Obj().Pkg() == nil && n.Obj().Name() == "error"
}

func lastResultIsError(sig *types.Signature) bool {
	r := sig.Results()
	return r.Len() > 0 && isErrorType(r.At(r.Len()-1).Type())
}

func errFlowFamily(w *World, prop string) ([]*Obligation, []string) {
	cf := w.Contracts
	if cf.ghost("pendErr") == nil {
		cf.Ghosts = append(cf.Ghosts, &Ghost{Name: "pendErr", Sort: "Iface", Init: "nil-iface"})
	}
	inv, _ := parseCExpr("pendErr == nil")
	invClause := &CExpr{Text: "pendErr == nil (no pending failure at the loop head)", Props: []string{"C17"}, ast: inv, GhostOnly: "pendErr"}
	var out []*Obligation
	var notes []string
	funcs := expandFuncList(w, cf.Lists["errorflow"])
	exempt := map[string]bool{}
	for _, e := range cf.Lists["errorflow_internal"] {
		exempt[e] = true
	}
	tolerated := 0
	for _, name := range funcs {
		fn := w.Funcs[name]
		if fn == nil {
			out = append(out, &Obligation{Name: name + "/errflow#0", Kind: "errflow", Func: name, Goal: "false", PC: "true", Props: []string{"C17"},
				Comment: "lost contract: function in the errorflow list no longer exists", Custom: "(assert true)"})
			continue
		}
		// contract = existing contract (for callee frames) + the ghost invariant on every loop
		base := cf.ByName[name]
		ct := &Contract{Kind: "func", Name: name, LoopInv: map[int][]*CExpr{}, LoopDec: map[int]*CExpr{}, Nilable: map[string]bool{}, NonNil: map[string]bool{}, Flags: map[string]string{}}
		if base != nil {
			ct.Requires = base.Requires
			ct.Nilable, ct.NonNil, ct.Flags = base.Nilable, base.NonNil, base.Flags
			for k, v := range base.LoopInv {
				ct.LoopInv[k] = append(ct.LoopInv[k], v...)
			}
		}
		// the generic invariant applies to every loop that has no explicit pendErr invariant
		explicit := map[int]bool{}
		if base != nil {
			for k, invs := range base.LoopInv {
				for _, e := range invs {
					if strings.Contains(e.Text, "pendErr") {
						explicit[k] = true
					}
				}
			}
		}
		if len(explicit) == 0 {
			ct.LoopInv[-1] = append(ct.LoopInv[-1], invClause)
		} else {
			for k := 1; k <= 64; k++ {
				if !explicit[k] {
					ct.LoopInv[k] = append(ct.LoopInv[k], invClause)
				}
			}
		}
		tol := []string{}
		if base != nil && base.Flags["tolerates"] != "" {
			tol = strings.Fields(base.Flags["tolerates"])
		}
		// errretry: a second call of the named callee supersedes the failure of the first one
		// (the documented retry with the unresolved name after a relative-name miss)
		retry := []string{}
		if base != nil && base.Flags["errretry"] != "" {
			retry = strings.Fields(base.Flags["errretry"])
		}
		// errretrywhen: the condition over the pending failure under which the retry supersedes it
		// (a template that was not found under the resolved name may be looked for under the name as
		// written; any other failure of the first attempt stays pending)
		var retryWhen *CExpr
		if base != nil && base.Flags["errretrywhen"] != "" {
			e, err := parseCExpr(base.Flags["errretrywhen"])
			if err == nil {
				retryWhen = &CExpr{Text: base.Flags["errretrywhen"], ast: e}
			}
		}
		lastErrOf := map[string]string{}
		// errreset: success of the named callee discharges earlier failures of the same callee
		// ("loaders are consulted in order and the first that has the name wins")
		reset := []string{}
		if base != nil && base.Flags["errreset"] != "" {
			reset = strings.Fields(base.Flags["errreset"])
		}
		// errtolerate: a documented tolerance, stated as a condition over the pending failure
		var tolExpr *CExpr
		if base != nil && base.Flags["errtolerate"] != "" {
			e, err := parseCExpr(base.Flags["errtolerate"])
			if err == nil {
				tolExpr = &CExpr{Text: base.Flags["errtolerate"], ast: e}
			}
		}
		fx := newFnExec(w, fn, ct)
		fx.hookGhost = "pendErr"
		calleeOf := func(c *ssa.CallCommon) string {
			if f := c.StaticCallee(); f != nil {
				return calleeName(f)
			} else if c.IsInvoke() {
				return namedTypeName(c.Value.Type()) + "." + c.Method.Name()
			}
			if n := namedTypeName(c.Value.Type()); n != "" {
				return n
			}
			return "func value"
		}
		fx.ghostTouch = func(call ssa.CallInstruction) bool {
			c := call.Common()
			if _, isB := c.Value.(*ssa.Builtin); isB {
				return false
			}
			if !lastResultIsError(c.Signature()) {
				return false
			}
			callee := calleeOf(c)
			if exempt[callee] {
				return false
			}
			for _, t := range tol {
				if strings.Contains(callee, t) {
					return false
				}
			}
			return true
		}
		fx.onCall = func(fx *FnExec, call ssa.CallInstruction, args []Val, res *Val) {
			c := call.Common()
			sig := c.Signature()
			callee := calleeOf(c)
			// wrappers extend the relation
			if f := c.StaticCallee(); f != nil && f.String() == "fmt.Errorf" && res.S != "" {
				fx.errorfWraps(c, res.S)
				return
			}
			if !lastResultIsError(sig) {
				return
			}
			if exempt[callee] {
				return
			}
			for _, t := range tol {
				if strings.Contains(callee, t) {
					tolerated++
					return
				}
			}
			var e string
			if res.Tup != nil {
				e = res.Tup[len(res.Tup)-1].S
			} else {
				e = res.S
			}
			if e == "" {
				return
			}
			old, _ := fx.ghostVal(fx.cur.gh, "pendErr")
			for _, r := range retry {
				if strings.Contains(callee, r) {
					if prev, ok := lastErrOf[callee]; ok {
						cond := "(= " + old + " " + prev + ")"
						if retryWhen != nil {
							t, err := fx.evalContract(retryWhen, &evalEnv{fx: fx, heap: fx.cur.heap, oldHeap: fx.heap0})
							if err == nil {
								cond = and(cond, t)
							} else {
								fx.outside = append(fx.outside, "errretrywhen: "+err.Error())
								cond = "false"
							}
						}
						old = fx.define("gh_pendErr_retry", "Iface", ite(cond, "nil-iface", old))
					}
					lastErrOf[callee] = e
				}
			}
			for _, r := range reset {
				if strings.Contains(callee, r) {
					old = fx.define("gh_pendErr_reset", "Iface", ite("(= "+e+" nil-iface)", "nil-iface", old))
				}
			}
			n := fx.define("gh_pendErr", "Iface", ite("(= "+old+" nil-iface)", e, old))
			fx.cur.gh["pendErr"] = n
		}
		fx.onReturn = func(fx *FnExec, ret *ssa.Return, vals []Val) {
			pend, _ := fx.ghostVal(fx.cur.gh, "pendErr")
			var goal string
			if lastResultIsError(fn.Signature) {
				re := vals[len(vals)-1].S
				fx.assume("(wraps " + re + " " + re + ")")
				if base != nil && base.Flags["errwrapper"] != "" {
					fx.wrapperSliceLemma(ret, re, strings.Fields(base.Flags["errwrapper"]), pend)
				}
				goal = or("(= "+pend+" nil-iface)", and("(distinct "+re+" nil-iface)", "(wraps "+re+" "+pend+")"))
			} else {
				goal = "(= " + pend + " nil-iface)"
			}
			if tolExpr != nil {
				t, err := fx.evalContract(tolExpr, &evalEnv{fx: fx, heap: fx.cur.heap, oldHeap: fx.heap0, rets: vals})
				if err == nil {
					goal = or(goal, t)
				} else {
					fx.outside = append(fx.outside, "errtolerate: "+err.Error())
				}
			}
			o := fx.oblige("errflow", goal, ret, "a failure reported by a callee is returned (wrapped), not swallowed")
			o.Props = []string{"C17"}
		}
		obls, err := fx.Run()
		if err != nil {
			out = append(out, &Obligation{Name: name + "/errflow#0", Kind: "errflow", Func: name, Goal: "false", PC: "true", Props: []string{"C17"},
				Comment: "translation failed: " + err.Error(), Custom: "(assert true)"})
			continue
		}
		for _, p := range fx.outside {
			out = append(out, &Obligation{Name: name + "/errflow-translation", Kind: "errflow", Func: name, Goal: "false", PC: "true", Props: []string{"C17"},
				Comment: "contract could not be translated: " + p, Custom: "(assert true)"})
		}
		for _, o := range obls {
			if o.Kind == "errflow" || ((o.Kind == "inv-entry" || o.Kind == "inv-pres") && strings.Contains(o.Comment, "pendErr")) {
				o.Props = []string{"C17"}
				out = append(out, o)
			}
		}
	}
	notes = append(notes, fmt.Sprintf("errorflow functions: %d; tolerated call sites: %d", len(funcs), tolerated))
	return out, notes
}

// errorfWraps: fmt.Errorf with constant format: the result wraps the arguments at %w positions.
func (fx *FnExec) errorfWraps(c *ssa.CallCommon, ret string) {
	fx.declareFun("wraps", []string{"Iface", "Iface"}, "Bool")
	if len(c.Args) < 2 {
		return
	}
	fc, ok := c.Args[0].(*ssa.Const)
	if !ok || fc.Value == nil || fc.Value.Kind() != constant.String {
		return
	}
	format := constant.StringVal(fc.Value)
	// verbs in order
	var verbs []byte
	for i := 0; i < len(format); i++ {
		if format[i] != '%' {
			continue
		}
		i++
		for i < len(format) && strings.IndexByte("+-# 0123456789.[]*", format[i]) >= 0 {
			i++
		}
		if i < len(format) {
			if format[i] == '%' {
				continue
			}
			verbs = append(verbs, format[i])
		}
	}
	// the variadic slice is built from a fixed array allocation
	sl, ok := c.Args[1].(*ssa.Slice)
	if !ok {
		return
	}
	al, ok := sl.X.(*ssa.Alloc)
	if !ok {
		return
	}
	pl := fx.placeOf(fx.val(al))
	arr, ok := al.Type().Underlying().(*types.Pointer).Elem().Underlying().(*types.Array)
	if !ok {
		return
	}
	for i, v := range verbs {
		if v != 'w' || int64(i) >= arr.Len() {
			continue
		}
		a := fx.load(&Place{Kind: PElem, Arr: pl.Arr, Idx: fmt.Sprint(i), Elem: arr.Elem()})
		fx.assume("(wraps " + ret + " " + a + ")")
		// transitivity, instantiated for the pending failure
		if pend, ok := fx.ghostVal(fx.cur.gh, "pendErr"); ok {
			fx.assume("(=> (wraps " + a + " " + pend + ") (wraps " + ret + " " + pend + "))")
			fx.assume("(wraps " + a + " " + a + ")")
		}
	}
}

// pctMatch: glob with % as the wildcard (function names contain '*').
func pctMatch(glob, name string) bool {
	parts := strings.Split(glob, "%")
	if !strings.HasPrefix(name, parts[0]) {
		return false
	}
	name = name[len(parts[0]):]
	for i := 1; i < len(parts)-1; i++ {
		k := strings.Index(name, parts[i])
		if k < 0 {
			return false
		}
		name = name[k+len(parts[i]):]
	}
	return strings.HasSuffix(name, parts[len(parts)-1])
}

// wrapperSliceLemma: a returned error of dynamic type *T (flag errwrapper T field) unwraps to every
// element of its slice field (its Unwrap() []error returns them) — trusted link to errors.Is.
func (fx *FnExec) wrapperSliceLemma(ret *ssa.Return, re string, spec []string, pend string) {
	if len(spec) != 2 || len(ret.Results) == 0 {
		return
	}
	mi, ok := ret.Results[len(ret.Results)-1].(*ssa.MakeInterface)
	if !ok {
		return
	}
	pt, ok := mi.X.Type().Underlying().(*types.Pointer)
	if !ok || namedTypeName(pt.Elem()) != spec[0] {
		return
	}
	st, ok := pt.Elem().Underlying().(*types.Struct)
	if !ok {
		return
	}
	for i := 0; i < st.NumFields(); i++ {
		if st.Field(i).Name() != spec[1] {
			continue
		}
		sl, ok := st.Field(i).Type().Underlying().(*types.Slice)
		if !ok {
			return
		}
		ref := fx.term(fx.val(mi.X))
		s := fx.load(&Place{Kind: PField, Ref: ref, Struct: st, Field: i, Elem: st.Field(i).Type(), SName: fx.W.structName(pt.Elem())})
		name, sort := fx.elemHeap(sl.Elem())
		h := fx.heapArr(name, sort)
		el := "(select (select " + h + " (s.arr " + s + ")) (+ (s.off " + s + ") qi))"
		fx.assume("(forall ((qi Int)) (! (=> (and (<= 0 qi) (< qi (s.len " + s + "))) (and (wraps " + re + " " + el + ") (=> (wraps " + el + " " + pend + ") (wraps " + re + " " + pend + ")))) :pattern (" + el + ")))")
		fx.usedAssumption("a *" + spec[0] + " error unwraps to every element of its " + spec[1] + " field (its Unwrap method returns them)")
	}
}
