package main

// C13: the dash on a delimiter never changes how a template parses (F6).

func init() {
	families["C13"] = append(families["C13"], func(w *World, prop string) ([]*Obligation, []string) {
		var out []*Obligation
		var notes []string
		for _, name := range w.Contracts.Lists["dash_insensitive"] {
			ct := w.Contracts.ByName[name]
			obls, fx, err := lockstepObligations(w, name, ct, tokenClassRelation, []string{"C13"})
			if err != nil {
				o := &Obligation{Name: name + "/lockstep#0", Kind: "lockstep", Func: name, Goal: "false", PC: "true", Comment: "cannot build relational obligations: " + err.Error(), Props: []string{"C13"}, Custom: "(assert true)"}
				out = append(out, o)
				continue
			}
			_ = fx
			out = append(out, obls...)
		}
		notes = append(notes, "lockstep self-composition over token arrays related by cls(type) equality")
		return out, notes
	})
}
