package main

// Contracts name local variables of the functions they speak about (loop variables in invariants,
// locals in atcall clauses). A maintainer who renames a local changes nothing the property is about;
// the contract file, which lives beside the code, still carries the old name. To keep such an edit
// from raising an alarm, the names are resolved with the help of a table taken from the tree the
// contracts were written against (/verif/spec/localnames.json, written by `govc names`): for every
// function the distinct local names in order of first occurrence, each with its type. When a
// contract uses a name the function no longer has, and the function has exactly one local of the
// same type that the table does not know (the closest in order when there are several), that local
// is what the contract means. A name that cannot be matched is still reported.

import (
	"encoding/json"
	"go/ast"
	"os"
	"path/filepath"
	"sort"

	"golang.org/x/tools/go/ssa"
)

type localName struct {
	Name string `json:"n"`
	Type string `json:"t"`
}

// localNamesOf: distinct names of locals (debug references, named phis, named cells) in order of
// first occurrence.
func localNamesOf(fn *ssa.Function) []localName {
	var out []localName
	seen := map[string]bool{}
	add := func(n, t string) {
		if n == "" || seen[n] {
			return
		}
		seen[n] = true
		out = append(out, localName{n, t})
	}
	for _, b := range fn.Blocks {
		for _, in := range b.Instrs {
			switch x := in.(type) {
			case *ssa.Phi:
				add(x.Comment, x.Type().String())
			case *ssa.Alloc:
				add(x.Comment, x.Type().String())
			case *ssa.DebugRef:
				if id, ok := x.Expr.(*ast.Ident); ok {
					t := x.X.Type().String()
					if x.IsAddr {
						t = x.X.Type().String() // pointer to the variable: same convention as Alloc
					}
					add(id.Name, t)
				}
			}
		}
	}
	return out
}

type nameTable struct {
	Locals map[string][]localName `json:"locals"`
	Params map[string][]string    `json:"params"` // parameter names in order, receiver first
	Funcs  []string               `json:"funcs"`  // every function with a body
	Loops  map[string][]string    `json:"loops"`  // loop signatures in source order (loopsigs.go), functions with >= 2 loops
}

func cmdNames(w *World) int {
	table := nameTable{Locals: map[string][]localName{}, Params: map[string][]string{}, Loops: map[string][]string{}}
	for name, fn := range w.Funcs {
		if len(fn.Blocks) == 0 {
			continue
		}
		table.Funcs = append(table.Funcs, name)
		if ns := localNamesOf(fn); len(ns) > 0 {
			table.Locals[name] = ns
		}
		var ps []string
		for _, p := range fn.Params {
			ps = append(ps, p.Name())
		}
		if len(ps) > 0 {
			table.Params[name] = ps
		}
		if sg := loopSigsOf(fn); len(sg) >= 2 {
			table.Loops[name] = sg
		}
	}
	sort.Strings(table.Funcs)
	b, _ := json.Marshal(table)
	path := filepath.Join(verifDir, "spec", "localnames.json")
	if err := os.WriteFile(path, b, 0o644); err != nil {
		return 2
	}
	return 0
}

var refLocalNames map[string][]localName
var refParamNames map[string][]string
var refLoopSigs map[string][]string
var refFuncs map[string]bool
var refLocalNamesLoaded bool

// contractParamNames: the names the contracts use for the parameters of fn (receiver first): those
// of the tree the contracts were written against when the function still has as many parameters,
// otherwise the current ones.
func contractParamNames(name string, fn *ssa.Function) []string {
	loadRefLocalNames()
	cur := make([]string, len(fn.Params))
	for i, p := range fn.Params {
		cur[i] = p.Name()
	}
	ref := refParamNames[name]
	if len(ref) != len(cur) {
		return cur
	}
	out := make([]string, len(cur))
	for i := range cur {
		out[i] = cur[i]
		if ref[i] != cur[i] {
			clash := false
			for _, c := range cur {
				if c == ref[i] {
					clash = true // the old name now means another parameter: keep the current names
				}
			}
			if !clash {
				out[i] = ref[i]
			}
		}
	}
	return out
}

func loadRefLocalNames() {
	if refLocalNamesLoaded {
		return
	}
	refLocalNamesLoaded = true
	b, err := os.ReadFile(filepath.Join(verifDir, "spec", "localnames.json"))
	if err != nil {
		return
	}
	var t nameTable
	if json.Unmarshal(b, &t) == nil {
		refLocalNames, refParamNames, refLoopSigs = t.Locals, t.Params, t.Loops
		if len(t.Funcs) > 0 {
			refFuncs = map[string]bool{}
			for _, f := range t.Funcs {
				refFuncs[f] = true
			}
		}
	}
}

// renamesFor: current name -> name the contracts use, for locals the function had under another
// name on the tree the contracts were written against.
func renamesFor(name string, fn *ssa.Function) map[string]string {
	loadRefLocalNames()
	ref := refLocalNames[name]
	if len(ref) == 0 {
		return nil
	}
	cur := localNamesOf(fn)
	curSet, refSet := map[string]bool{}, map[string]bool{}
	for _, c := range cur {
		curSet[c.Name] = true
	}
	for _, r := range ref {
		refSet[r.Name] = true
	}
	type ent struct {
		localName
		pos int
	}
	var missing, extra []ent
	for i, r := range ref {
		if !curSet[r.Name] {
			missing = append(missing, ent{r, i})
		}
	}
	for i, c := range cur {
		if !refSet[c.Name] {
			extra = append(extra, ent{c, i})
		}
	}
	if len(missing) == 0 || len(extra) == 0 {
		return nil
	}
	out := map[string]string{}
	used := map[int]bool{}
	for _, m := range missing {
		var cands []int
		for j, e := range extra {
			if !used[j] && e.Type == m.Type {
				cands = append(cands, j)
			}
		}
		if len(cands) == 0 {
			continue
		}
		// the closest in order of occurrence
		sort.Slice(cands, func(a, b int) bool {
			da, db := extra[cands[a]].pos-m.pos, extra[cands[b]].pos-m.pos
			if da < 0 {
				da = -da
			}
			if db < 0 {
				db = -db
			}
			return da < db
		})
		j := cands[0]
		used[j] = true
		out[extra[j].Name] = m.Name
	}
	return out
}

// sameName: the local called `actual` in the source at hand is the one the contracts call `wanted`.
func (fx *FnExec) sameName(actual, wanted string) bool {
	if actual == wanted {
		return true
	}
	if fx.renames == nil {
		fx.renames = renamesFor(displayName(fx.Fn), fx.Fn)
		if fx.renames == nil {
			fx.renames = map[string]string{}
		}
		for cur, old := range fx.renames {
			fx.notes = append(fx.notes, "renamed:"+old+"->"+cur)
		}
	}
	return fx.renames[actual] == wanted
}
