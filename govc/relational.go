package main

// Relational (2-safety) obligations by self-composition in lockstep (DESIGN.md F6).
//
// The function is executed symbolically once; its verification-condition text is duplicated with
// every symbol renamed (copy B). The two copies start from related states: everything equal,
// except the designated heaps (the token arrays), which are related by a quantified relation
// (token types equal up to their class, values and lines equal). Callee results and other
// arbitrary values are taken equal in both copies — this is sound as long as both copies follow
// the same path, which is exactly what the generated obligations establish inductively: at every
// branch, under both path conditions, the two branch conditions agree.

import (
	"fmt"
	"regexp"
	"strings"

	"golang.org/x/tools/go/ssa"
)

type branchRec struct {
	in   *ssa.If
	pc   string
	cond string
}

type retRec struct {
	in   *ssa.Return
	pc   string
	vals []Val
}

var declRe = regexp.MustCompile(`^\((declare-const|define-fun|declare-fun)\s+([^\s()]+)\s+(.*)$`)
var symRe = regexp.MustCompile(`[A-Za-z_][A-Za-z0-9_.$]*`)

func sharedSymbol(name string) bool {
	return strings.HasPrefix(name, "str_") || strings.HasPrefix(name, "fconst_") || name == "u_zero"
}

// relSpec says how a declared constant of copy A relates to its twin in copy B.
type relSpec func(name, sort, twin string) string

func tokenClassRelation(name, sort, twin string) string {
	if strings.HasPrefix(name, "E_Token_") {
		return fmt.Sprintf("(forall ((qa Int) (qi Int)) (! (and (= (cls (S_Token.Type (select (select %[1]s qa) qi))) (cls (S_Token.Type (select (select %[2]s qa) qi)))) (= (S_Token.Value (select (select %[1]s qa) qi)) (S_Token.Value (select (select %[2]s qa) qi))) (= (S_Token.Line (select (select %[1]s qa) qi)) (S_Token.Line (select (select %[2]s qa) qi)))) :pattern ((select (select %[1]s qa) qi)) :pattern ((select (select %[2]s qa) qi))))", name, twin)
	}
	return "(= " + name + " " + twin + ")"
}

// lockstepObligations builds the relational obligations of one function.
func lockstepObligations(w *World, fnName string, ct *Contract, rel relSpec, props []string) ([]*Obligation, *FnExec, error) {
	fn := w.Funcs[fnName]
	if fn == nil {
		return nil, nil, fmt.Errorf("no such function %s", fnName)
	}
	fx := newFnExec(w, fn, ct)
	fx.recordBranches = true
	if _, err := fx.Run(); err != nil {
		return nil, nil, err
	}
	// symbols introduced by copy A
	rename := map[string]bool{}
	type decl struct{ name, sort string }
	var consts []decl
	var linesA, linesB []string
	// a constant that define() declared and then fixed by an equation (integer sums are named this
	// way, exec.go) is a derived value, not an arbitrary one: relating the two copies of it by
	// equality would assume the very agreement the obligations are to establish
	derived := map[string]bool{}
	for i, l := range fx.lines {
		if m := declRe.FindStringSubmatch(l); m != nil && m[1] == "declare-const" && i+1 < len(fx.lines) &&
			strings.HasPrefix(fx.lines[i+1], "(assert (= "+m[2]+" ") {
			derived[m[2]] = true
		}
	}
	for _, l := range fx.lines {
		m := declRe.FindStringSubmatch(l)
		if m != nil {
			name := m[2]
			switch m[1] {
			case "declare-fun":
				// shared uninterpreted function (declared once)
			case "declare-const":
				if derived[name] {
					rename[name] = true
				} else if !sharedSymbol(name) {
					rename[name] = true
					sort := strings.TrimSpace(m[3])
					if k := strings.Index(sort, " ;"); k >= 0 {
						sort = strings.TrimSpace(sort[:k])
					}
					sort = strings.TrimSuffix(sort, ")")
					consts = append(consts, decl{name, strings.TrimSpace(sort)})
				}
			case "define-fun":
				if !sharedSymbol(name) {
					rename[name] = true
				}
			}
		}
		linesA = append(linesA, l)
	}
	ren := func(s string) string {
		return symRe.ReplaceAllStringFunc(s, func(tok string) string {
			if rename[tok] {
				return tok + "__B"
			}
			return tok
		})
	}
	for _, l := range fx.lines {
		m := declRe.FindStringSubmatch(l)
		if m != nil {
			if m[1] == "declare-fun" {
				continue
			}
			if sharedSymbol(m[2]) {
				continue
			}
		} else if strings.HasPrefix(l, "(assert ") {
			// assertions that mention only shared symbols would be duplicated harmlessly
		}
		linesB = append(linesB, ren(l))
	}
	var relLines []string
	for _, c := range consts {
		relLines = append(relLines, "(assert "+rel(c.name, c.sort, c.name+"__B")+")")
	}
	ctxText := strings.Join(linesA, "\n") + "\n" + strings.Join(linesB, "\n") + "\n" + strings.Join(relLines, "\n") + "\n"
	var obls []*Obligation
	mk := func(kind, goal string, in ssa.Instruction, comment string, n int) {
		pos, src := w.posAndSrc(in)
		if ifi, ok := in.(*ssa.If); ok && pos == "" {
			if ci, ok := ifi.Cond.(ssa.Instruction); ok {
				pos, src = w.posAndSrc(ci)
			}
			if pos == "" {
				pos, src = w.posAndSrc(lastInstr(ifi.Block()))
			}
		}
		o := &Obligation{Kind: kind, Func: fn.String(), Goal: goal, PC: "true", fx: fx, Pos: pos, Src: src, Comment: comment, Props: props}
		o.Custom = w.preludeFor(ctxText+goal) + ctxText + "(assert (not " + goal + "))\n"
		obls = append(obls, o)
	}
	// Block-level agreement: every block with an effect is reached by both executions or by
	// neither. Blocks that only evaluate conditions (short-circuit chains) are exempt, and all
	// "error exits" (blocks that only build an error value and return it) form one class.
	_ = fx.branches
	var errPCs []string
	var errIn ssa.Instruction
	for _, b := range fn.Blocks {
		st := fx.bs[b]
		if st == nil || !st.done || st.pc == "false" {
			continue
		}
		switch classifyBlock(b) {
		case blockPure:
		case blockErrExit:
			errPCs = append(errPCs, st.pc)
			if errIn == nil {
				errIn = lastInstr(b)
			}
		case blockEffect:
			if st.pc == "true" {
				continue
			}
			in := firstEffect(b)
			goal := "(= " + st.pc + " " + ren(st.pc) + ")"
			mk("lockstep", goal, in, "both executions (token types equal up to dash class) reach this statement or neither does", b.Index)
		}
	}
	if len(errPCs) > 0 {
		goal := "(= " + or(errPCs...) + " " + ren(or(errPCs...)) + ")"
		mk("lockstep-err", goal, errIn, "both executions fail with a parse error or neither does", 0)
	}
	for i, r := range fx.returns {
		if len(r.vals) == 0 || classifyBlock(r.in.Block()) == blockErrExit {
			continue
		}
		last := r.vals[len(r.vals)-1]
		if w.sortOf(last.T) != "Iface" {
			continue
		}
		goal := "(=> (and " + r.pc + " " + ren(r.pc) + ") (= (= " + last.S + " nil-iface) (= " + ren(last.S) + " nil-iface)))"
		mk("lockstep-ret", goal, r.in, "both executions agree on success/failure", i)
	}
	// names: <func>/<kind>#<ordinal in source order>
	byKind := map[string][]*Obligation{}
	for _, o := range obls {
		byKind[o.Kind] = append(byKind[o.Kind], o)
	}
	for kind, os := range byKind {
		sortObls(os)
		for i, o := range os {
			o.Name = fmt.Sprintf("%s/%s#%d", fnName, kind, i+1)
		}
	}
	return obls, fx, nil
}

func sortObls(os []*Obligation) {
	for i := 1; i < len(os); i++ {
		for j := i; j > 0 && posLess(os[j].Pos, os[j-1].Pos); j-- {
			os[j], os[j-1] = os[j-1], os[j]
		}
	}
}

const (
	blockPure = iota
	blockErrExit
	blockEffect
)

func isErrorCtor(c *ssa.CallCommon) bool {
	if f := c.StaticCallee(); f != nil {
		switch f.String() {
		case "fmt.Errorf", "errors.New", "fmt.Sprintf":
			return true
		}
	}
	return false
}

// classifyBlock: pure = loads/compares/branches only; errexit = builds an error and returns it
// with all other results zero; effect = anything else observable.
func classifyBlock(b *ssa.BasicBlock) int {
	effect := false
	var ret *ssa.Return
	onlyErrCalls := true
	for _, in := range b.Instrs {
		switch x := in.(type) {
		case *ssa.Call:
			if _, ok := x.Call.Value.(*ssa.Builtin); ok {
				if bn := x.Call.Value.(*ssa.Builtin).Name(); bn == "len" || bn == "cap" {
					continue
				}
			}
			effect = true
			if !isErrorCtor(x.Common()) {
				onlyErrCalls = false
			}
		case *ssa.Store:
			// stores into a fresh varargs array (building the Errorf argument list) are not effects
			if rootFresh(x.Addr, 0) {
				continue
			}
			effect = true
			onlyErrCalls = false
		case *ssa.MapUpdate, *ssa.Defer, *ssa.Go, *ssa.Send, *ssa.Panic, *ssa.RunDefers:
			effect = true
			onlyErrCalls = false
		case *ssa.Return:
			ret = x
			effect = true
		}
	}
	if !effect {
		return blockPure
	}
	if ret != nil && onlyErrCalls && len(ret.Results) >= 1 {
		// last result is a freshly built error, the others are nil/zero constants
		last := ret.Results[len(ret.Results)-1]
		if _, isConst := last.(*ssa.Const); !isConst {
			allZero := true
			for _, r := range ret.Results[:len(ret.Results)-1] {
				if c, ok := r.(*ssa.Const); !ok || !(c.Value == nil || c.IsNil()) {
					allZero = false
				}
			}
			if allZero {
				if call, ok := last.(*ssa.Call); ok && isErrorCtor(call.Common()) {
					return blockErrExit
				}
			}
		}
	}
	return blockEffect
}

func firstEffect(b *ssa.BasicBlock) ssa.Instruction {
	for _, in := range b.Instrs {
		switch in.(type) {
		case *ssa.Call, *ssa.Store, *ssa.MapUpdate, *ssa.Return:
			if in.Pos().IsValid() {
				return in
			}
		}
	}
	return lastInstr(b)
}
