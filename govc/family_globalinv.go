package main

// Invariants of package-level maps ("requires global E" clauses): E is assumed at the entry of the
// functions that state it and is not an obligation of their callers. That is sound when (1) the
// package initialiser establishes E, (2) every function that writes the map states E as a
// postcondition (discharged like any other), and (3) nobody else writes the map. This family
// discharges (3): list `mapwriters <Owner>.<field>:<func>,<func>...` names the only functions that
// may store into or delete from the map held in that field; every other store or delete found in the
// package's SSA is a violation. (1) is the contract of the constructor named in the initialiser.

import (
	"fmt"
	"go/types"
	"strings"

	"golang.org/x/tools/go/ssa"
)

func init() {
	for _, p := range []string{"C20", "C01", "C14", "C08", "C05"} {
		families[p] = append(families[p], mapWritersFamily)
	}
}

// mapOwner: "<Owner>.<field>" when v is the map loaded from a field of a named struct or of a
// package-level struct variable.
func mapOwner(v ssa.Value) string {
	u, ok := v.(*ssa.UnOp)
	if !ok {
		return ""
	}
	fa, ok := u.X.(*ssa.FieldAddr)
	if !ok {
		return ""
	}
	pt, ok := fa.X.Type().Underlying().(*types.Pointer)
	if !ok {
		return ""
	}
	st, ok := pt.Elem().Underlying().(*types.Struct)
	if !ok {
		return ""
	}
	field := st.Field(fa.Field).Name()
	if n := namedTypeName(pt.Elem()); n != "" {
		return n + "." + field
	}
	if g, ok := fa.X.(*ssa.Global); ok {
		return g.Name() + "." + field
	}
	return ""
}

func mapWritersFamily(w *World, prop string) ([]*Obligation, []string) {
	allowed := map[string]map[string]bool{}
	for _, e := range w.Contracts.Lists["mapwriters"] {
		i := strings.Index(e, ":")
		if i < 0 {
			continue
		}
		m := map[string]bool{}
		for _, f := range strings.Split(e[i+1:], ",") {
			m[strings.TrimSpace(f)] = true
		}
		allowed[e[:i]] = m
	}
	if len(allowed) == 0 {
		return nil, nil
	}
	var out []*Obligation
	n := 0
	for _, name := range sortedKeys(w.Funcs) {
		fn := w.Funcs[name]
		k := 0
		for _, b := range fn.Blocks {
			for _, in := range b.Instrs {
				var m ssa.Value
				switch x := in.(type) {
				case *ssa.MapUpdate:
					m = x.Map
				case *ssa.Call:
					if bi, ok := x.Call.Value.(*ssa.Builtin); ok && (bi.Name() == "delete" || bi.Name() == "clear") && len(x.Call.Args) >= 1 {
						m = x.Call.Args[0]
					}
				case *ssa.Store:
					// assigning a new map to the field
					if fa, ok := x.Addr.(*ssa.FieldAddr); ok {
						if pt, ok := fa.X.Type().Underlying().(*types.Pointer); ok {
							if st, ok := pt.Elem().Underlying().(*types.Struct); ok {
								owner := namedTypeName(pt.Elem())
								if g, isG := fa.X.(*ssa.Global); isG && owner == "" {
									owner = g.Name()
								}
								key := owner + "." + st.Field(fa.Field).Name()
								if ok2 := allowed[key]; ok2 != nil {
									k++
									n++
									pos, src := w.posAndSrc(in)
									o := &Obligation{Name: fmt.Sprintf("%s/mapwriter#%d", name, k), Kind: "mapwriter", Func: name, Pos: pos, Src: src, PC: "true", Props: []string{prop},
										Comment: "the map " + key + " (subject of a package-level invariant) is assigned only by the functions that state the invariant", Goal: "listed writer"}
									if ok2[name] {
										o.Custom = "(set-logic ALL)(assert false)"
									} else {
										o.Custom = "(set-logic ALL)(assert true)"
									}
									out = append(out, o)
								}
							}
						}
					}
					continue
				}
				if m == nil {
					continue
				}
				key := mapOwner(m)
				ws := allowed[key]
				if ws == nil {
					continue
				}
				k++
				n++
				pos, src := w.posAndSrc(in)
				o := &Obligation{Name: fmt.Sprintf("%s/mapwriter#%d", name, k), Kind: "mapwriter", Func: name, Pos: pos, Src: src, PC: "true", Props: []string{prop},
					Comment: "the map " + key + " (subject of a package-level invariant) is written only by the functions that state the invariant", Goal: "listed writer"}
				if ws[name] {
					o.Custom = "(set-logic ALL)(assert false)"
				} else {
					o.Custom = "(set-logic ALL)(assert true)"
				}
				out = append(out, o)
			}
		}
	}
	return out, []string{fmt.Sprintf("writes to maps under a package-level invariant examined: %d", n)}
}
