package main

import (
	"flag"
	"fmt"
	"os"
	"path/filepath"
	"sort"
	"strings"
)

var (
	repoDir  = "/repo"
	verifDir = "/verif"
)

func loadContracts(w *World) error {
	cpath := filepath.Join(repoDir, "verif_contracts.go")
	stdPath := filepath.Join(verifDir, "spec", "std.contracts")
	cf, err := parseContractFile(cpath, stdPath)
	if err != nil {
		return err
	}
	// spec prelude
	files, _ := filepath.Glob(filepath.Join(verifDir, "spec", "*.smt2"))
	sort.Strings(files)
	var sb strings.Builder
	for _, f := range files {
		b, err := os.ReadFile(f)
		if err != nil {
			return err
		}
		sb.Write(b)
		sb.WriteByte('\n')
	}
	cf.specText = sb.String()
	cf.Specs = parseSpecSigs(cf.specText)
	var names []string
	for n := range w.Funcs {
		names = append(names, n)
	}
	sort.Strings(names)
	if err := cf.resolveApplies(names); err != nil {
		return err
	}
	fileOf := map[string]string{}
	for n, f := range w.Funcs {
		if !f.Pos().IsValid() {
			continue
		}
		file := w.Fset.Position(f.Pos()).Filename
		if i := strings.LastIndex(file, "/"); i >= 0 {
			file = file[i+1:]
		}
		fileOf[n] = file
	}
	if err := cf.resolveFileApplies(fileOf); err != nil {
		return err
	}
	// ghosts used by the obligation families
	if cf.ghost("pendErr") == nil {
		cf.Ghosts = append(cf.Ghosts, &Ghost{Name: "pendErr", Sort: "Iface", Init: "nil-iface"})
	}
	w.Contracts = cf
	return nil
}

func main() {
	if len(os.Args) < 2 {
		fmt.Fprintln(os.Stderr, "usage: govc <check|dump|list> ...")
		os.Exit(2)
	}
	cmd := os.Args[1]
	fs := flag.NewFlagSet(cmd, flag.ExitOnError)
	fs.StringVar(&repoDir, "repo", "/repo", "repository working tree")
	fs.StringVar(&verifDir, "verif", "/verif", "verification directory")
	tier := fs.String("tier", "quick", "quick|thorough")
	verbose := fs.Bool("v", false, "verbose")
	showQuery := fs.String("query", "", "dump: print the SMT query of the named obligation")
	fs.BoolVar(&debugPanic, "debugpanic", false, "do not recover internal panics")
	fs.Parse(os.Args[2:])
	initScratch()
	defer cleanupScratch()
	w, err := loadWorld(repoDir)
	if err != nil {
		fmt.Fprintln(os.Stderr, "load:", err)
		cleanupScratch()
		os.Exit(2)
	}
	if err := loadContracts(w); err != nil {
		fmt.Fprintln(os.Stderr, "contracts:", err)
		cleanupScratch()
		os.Exit(2)
	}
	code := 0
	switch cmd {
	case "list":
		names := make([]string, 0, len(w.Funcs))
		for n := range w.Funcs {
			names = append(names, n)
		}
		sort.Strings(names)
		for _, n := range names {
			fmt.Println(n)
		}
	case "names":
		code = cmdNames(w)
	case "dump":
		code = cmdDump(w, fs.Args(), *verbose, *showQuery)
	case "check":
		code = cmdCheck(w, fs.Args(), *tier, *verbose)
	case "sweep":
		code = cmdSweep(w, fs.Args(), *verbose)
	default:
		fmt.Fprintln(os.Stderr, "unknown command", cmd)
		code = 2
	}
	cleanupScratch()
	os.Exit(code)
}

func cmdDump(w *World, args []string, verbose bool, showQuery string) int {
	for _, name := range args {
		fn := w.Funcs[name]
		if fn == nil {
			fmt.Println("no such function:", name)
			continue
		}
		ct := w.Contracts.ByName[name]
		if ic := w.Contracts.ByName["impl "+name]; ic != nil {
			ct = ic // the contract the body is checked against
		}
		fx := newFnExec(w, fn, ct)
		obls, err := fx.Run()
		if err != nil {
			fmt.Println("error:", err)
			continue
		}
		dischargeAll(obls, 10, 16)
		nd := 0
		for _, o := range obls {
			if o.Answer.Verdict == VUnsat {
				nd++
			}
			if verbose || o.Answer.Verdict != VUnsat {
				fmt.Printf("%-8s %-40s %s  %s | %s\n", o.Answer.Verdict, o.Name, o.Pos, truncate(o.Src, 70), o.Comment)
				if o.Answer.Verdict == VSat && verbose {
					keys := sortedKeys(o.Answer.Model)
					for _, k := range keys {
						if strings.HasPrefix(k, "p_") {
							fmt.Printf("           %s = %s\n", k, truncate(o.Answer.Model[k], 100))
						}
					}
				}
			}
			if showQuery != "" && o.Name == showQuery {
				fmt.Println(o.query())
			}
		}
		fmt.Printf("%s: %d obligations, %d discharged; outside=%v\n", name, len(obls), nd, fx.outside)
		if verbose {
			for _, n := range fx.notes {
				fmt.Println("  note:", n)
			}
		}
	}
	return 0
}

// cmdSweep runs the executor on every function of the package without contracts (robustness and
// a census of safety obligations).
func cmdSweep(w *World, args []string, discharge bool) int {
	names := make([]string, 0, len(w.Funcs))
	for n := range w.Funcs {
		names = append(names, n)
	}
	sort.Strings(names)
	tot, failed := 0, 0
	var all []*Obligation
	for _, n := range names {
		if len(args) > 0 && !strings.Contains(n, args[0]) {
			continue
		}
		fn := w.Funcs[n]
		if len(fn.Blocks) == 0 {
			continue
		}
		fx := newFnExec(w, fn, w.Contracts.ByName[n])
		obls, err := fx.Run()
		if err != nil {
			fmt.Println("ERR", n, err)
			failed++
			continue
		}
		tot += len(obls)
		all = append(all, obls...)
		if len(fx.outside) > 0 {
			fmt.Println("OUT", n, fx.outside)
		}
	}
	fmt.Printf("functions=%d obligations=%d failed=%d\n", len(names), tot, failed)
	if discharge {
		dischargeAll(all, 5, 16)
		cnt := map[string]int{}
		for _, o := range all {
			cnt[o.Kind+"/"+o.Answer.Verdict.String()]++
		}
		for _, k := range sortedKeys(cnt) {
			fmt.Println(k, cnt[k])
		}
		for _, o := range all {
			if o.Answer.Verdict != VUnsat {
				fmt.Printf("FAIL %-7s %-50s %s  %s\n", o.Answer.Verdict, o.Name, o.Pos, truncate(o.Src, 90))
			}
		}
	}
	return 0
}

func init() {
	if os.Getenv("GOVC_KEEP") != "" {
		keepQueries = true
	}
}
