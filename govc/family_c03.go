package main

// C03: output is a deterministic function of templates and context — insensitivity to Go's map
// iteration order (family F7).
//
// For every loop that visits the entries of a map in Go's unspecified order (range over a map, or a
// loop over the result of reflect.Value.MapKeys that has not been sorted), the effects of the loop
// body are extracted from its SSA and each effect must commute with itself for two different keys.
// Each effect class is decided by a small SMT lemma over its abstract algebra (arrays for maps, an
// uninterpreted append for slices, integer addition for counters); the assumed contract of package
// sort ("the result depends only on the multiset") enters as an axiom where a slice built in the
// loop is sorted before any other use. Two-key commutation implies permutation invariance by
// induction on adjacent transpositions (stated, not mechanised).

import (
	"fmt"
	"go/token"
	"go/types"
	"strings"

	"golang.org/x/tools/go/ssa"
)

func init() {
	families["C03"] = append(families["C03"], mapOrderFamily)
}

type orderSite struct {
	fn   *ssa.Function
	head *ssa.BasicBlock
	body map[int]bool
	at   ssa.Instruction
	kind string      // "range" or "mapkeys"
	iter []ssa.Value // values that depend directly on the visited entry (key, value, keys[i])
	mapV ssa.Value   // the iterated map (range) or the MapKeys slice
}

func naturalLoops(fn *ssa.Function) map[int]map[int]bool {
	loops := map[int]map[int]bool{}
	for _, b := range fn.Blocks {
		for _, s := range b.Succs {
			if s.Dominates(b) {
				body := loops[s.Index]
				if body == nil {
					body = map[int]bool{s.Index: true}
					loops[s.Index] = body
				}
				stack := []*ssa.BasicBlock{b}
				for len(stack) > 0 {
					x := stack[len(stack)-1]
					stack = stack[:len(stack)-1]
					if body[x.Index] {
						continue
					}
					body[x.Index] = true
					stack = append(stack, x.Preds...)
				}
			}
		}
	}
	return loops
}

func isSortCall(c *ssa.CallCommon) bool {
	f := c.StaticCallee()
	return f != nil && f.Pkg != nil && f.Pkg.Pkg.Path() == "sort"
}

// usedBySortBefore: v is passed to a sort.* call in a block that dominates blk.
func sortedBefore(v ssa.Value, blk *ssa.BasicBlock) bool {
	refs := v.Referrers()
	if refs == nil {
		return false
	}
	for _, r := range *refs {
		var c *ssa.CallCommon
		switch x := r.(type) {
		case *ssa.Call:
			c = x.Common()
		case *ssa.MakeInterface:
			// sort.Slice(x any, ...) boxes the slice first
			if rr := x.Referrers(); rr != nil {
				for _, r2 := range *rr {
					if call, ok := r2.(*ssa.Call); ok && isSortCall(call.Common()) && call.Block().Dominates(blk) {
						return true
					}
				}
			}
			continue
		default:
			continue
		}
		if isSortCall(c) && r.Block().Dominates(blk) {
			return true
		}
	}
	return false
}

func findOrderSites(fn *ssa.Function) []*orderSite {
	var sites []*orderSite
	loops := naturalLoops(fn)
	for _, b := range fn.Blocks {
		for _, in := range b.Instrs {
			switch x := in.(type) {
			case *ssa.Next:
				rng, ok := x.Iter.(*ssa.Range)
				if !ok || x.IsString {
					continue
				}
				if _, isMap := rng.X.Type().Underlying().(*types.Map); !isMap {
					continue
				}
				body := loops[b.Index]
				kind := "range"
				if body == nil {
					// no back edge: the code takes whichever entry comes first and leaves
					kind = "first-entry"
					body = map[int]bool{}
					stack := []*ssa.BasicBlock{}
					if len(b.Succs) > 0 {
						stack = append(stack, b.Succs[0])
					}
					for len(stack) > 0 {
						x := stack[len(stack)-1]
						stack = stack[:len(stack)-1]
						if body[x.Index] {
							continue
						}
						body[x.Index] = true
						stack = append(stack, x.Succs...)
					}
				}
				s := &orderSite{fn: fn, head: b, body: body, at: rng, kind: kind, mapV: rng.X}
				if refs := x.Referrers(); refs != nil {
					for _, r := range *refs {
						if e, ok := r.(*ssa.Extract); ok && e.Index >= 1 {
							s.iter = append(s.iter, e)
						}
					}
				}
				sites = append(sites, s)
			case *ssa.Call:
				f := x.Call.StaticCallee()
				if f == nil || f.String() != "(reflect.Value).MapKeys" {
					continue
				}
				// loops that index the keys slice - directly, or through a variable that holds it
				// on some paths only (phi), a reslice or a conversion
				for _, ia := range indexUsesOf(x) {
					// innermost loop containing the index expression
					var head *ssa.BasicBlock
					for h, body := range loops {
						if body[ia.Block().Index] {
							if head == nil || loops[head.Index][h] {
								head = fn.Blocks[h]
							}
						}
					}
					if head == nil || sortedBefore(x, head) || sortedBefore(ia.X, head) {
						continue
					}
					s := &orderSite{fn: fn, head: head, body: loops[head.Index], at: x, kind: "mapkeys", mapV: x, iter: []ssa.Value{ia}}
					// the loaded key
					if rr := ia.Referrers(); rr != nil {
						for _, r2 := range *rr {
							if u, ok := r2.(*ssa.UnOp); ok {
								s.iter = append(s.iter, u)
							}
						}
					}
					sites = append(sites, s)
				}
			}
		}
	}
	return sites
}

// indexUsesOf: the index expressions over v or over a value v flows into unchanged (phi, reslice,
// type change).
func indexUsesOf(v ssa.Value) []*ssa.IndexAddr {
	var out []*ssa.IndexAddr
	seen := map[ssa.Value]bool{}
	var walk func(ssa.Value)
	walk = func(x ssa.Value) {
		if seen[x] {
			return
		}
		seen[x] = true
		refs := x.Referrers()
		if refs == nil {
			return
		}
		for _, r := range *refs {
			switch y := r.(type) {
			case *ssa.IndexAddr:
				if y.X == x {
					out = append(out, y)
				}
			case *ssa.Phi:
				walk(y)
			case *ssa.Slice:
				if y.X == x {
					walk(y)
				}
			case *ssa.ChangeType:
				walk(y)
			}
		}
	}
	walk(v)
	return out
}

// escapesOf: the instructions through which v (or a phi/reslice/conversion/local variable copy of
// it) is returned, stored, or passed to a callee that is not package sort or len/cap, before any
// value of that flow has been handed to package sort.
func escapesOf(v ssa.Value) []ssa.Instruction {
	var cand []ssa.Instruction
	var sorts []ssa.Instruction
	seen := map[ssa.Value]bool{}
	var walk func(ssa.Value)
	onlySortUses := func(c ssa.Value) bool {
		refs := c.Referrers()
		if refs == nil {
			return true
		}
		for _, r := range *refs {
			if _, dbg := r.(*ssa.DebugRef); dbg {
				continue
			}
			ci, ok := r.(ssa.CallInstruction)
			if !ok || !isSortCall(ci.Common()) {
				return false
			}
		}
		return true
	}
	walk = func(x ssa.Value) {
		if seen[x] {
			return
		}
		seen[x] = true
		refs := x.Referrers()
		if refs == nil {
			return
		}
		for _, r := range *refs {
			switch y := r.(type) {
			case *ssa.Phi:
				walk(y)
			case *ssa.Slice:
				if y.X == x {
					walk(y)
				}
			case *ssa.ChangeType:
				walk(y)
			case *ssa.MakeInterface:
				walk(y)
			case *ssa.Return:
				cand = append(cand, y)
			case *ssa.Store:
				if y.Val != x {
					continue
				}
				if al, ok := y.Addr.(*ssa.Alloc); ok {
					// a local variable (possibly captured by a comparison closure): follow its loads
					if rr := al.Referrers(); rr != nil {
						for _, r2 := range *rr {
							switch z := r2.(type) {
							case *ssa.UnOp:
								if z.Op == token.MUL {
									walk(z)
								}
							case *ssa.MakeClosure:
								if !onlySortUses(z) {
									cand = append(cand, z)
								}
							}
						}
					}
					continue
				}
				cand = append(cand, y)
			case *ssa.MapUpdate:
				if y.Value == x || y.Key == x {
					cand = append(cand, y)
				}
			case *ssa.MakeClosure:
				if !onlySortUses(y) {
					cand = append(cand, y)
				}
			case ssa.CallInstruction:
				c := y.Common()
				if b, ok := c.Value.(*ssa.Builtin); ok && (b.Name() == "len" || b.Name() == "cap") {
					continue
				}
				if isSortCall(c) {
					sorts = append(sorts, y)
					continue
				}
				cand = append(cand, y)
			}
		}
	}
	walk(v)
	before := func(a, b ssa.Instruction) bool { // a is executed before b on every path to b
		if a.Block() != b.Block() {
			return a.Block().Dominates(b.Block())
		}
		for _, in := range a.Block().Instrs {
			if in == a {
				return true
			}
			if in == b {
				return false
			}
		}
		return false
	}
	var out []ssa.Instruction
	for _, c := range cand {
		sorted := false
		for _, s := range sorts {
			if before(s, c) {
				sorted = true
			}
		}
		if !sorted {
			out = append(out, c)
		}
	}
	return out
}

// dependsOn: v is computed from one of the roots (data dependence through pure instructions and
// call arguments), within the loop body.
func dependsOn(v ssa.Value, roots []ssa.Value, body map[int]bool, seen map[ssa.Value]bool) bool {
	for _, r := range roots {
		if v == r {
			return true
		}
	}
	if seen[v] {
		return false
	}
	seen[v] = true
	in, ok := v.(ssa.Instruction)
	if !ok || in.Block() == nil || !body[in.Block().Index] {
		return false
	}
	var ops []*ssa.Value
	for _, op := range in.Operands(ops) {
		if op != nil && *op != nil && dependsOn(*op, roots, body, seen) {
			return true
		}
	}
	return false
}

// keyIsIterationKey: the map key operand is the visited key itself, possibly boxed/converted
// injectively.
func injectiveOf(v ssa.Value, roots []ssa.Value, depth int) bool {
	for _, r := range roots {
		if v == r {
			return true
		}
	}
	if depth > 6 {
		return false
	}
	switch x := v.(type) {
	case *ssa.MakeInterface:
		return injectiveOf(x.X, roots, depth+1)
	case *ssa.ChangeType:
		return injectiveOf(x.X, roots, depth+1)
	case *ssa.ChangeInterface:
		return injectiveOf(x.X, roots, depth+1)
	case *ssa.Call:
		// reflect.Value.Interface() of the key is the key
		if f := x.Call.StaticCallee(); f != nil && (f.String() == "(reflect.Value).Interface" || f.String() == "(reflect.Value).String") && len(x.Call.Args) == 1 {
			return injectiveOf(x.Call.Args[0], roots, depth+1)
		}
	case *ssa.UnOp:
		if x.Op == token.MUL {
			return injectiveOf(x.X, roots, depth+1)
		}
	}
	return false
}

type orderEffect struct {
	desc  string
	lemma string // SMT text whose unsat answer proves commutation ("" with ok=false: refuted outright)
	at    ssa.Instruction
}

const mapLemmaPrelude = `(set-logic ALL)
(declare-sort K 0)(declare-sort V 0)(declare-sort S 0)(declare-sort X 0)
(declare-const M (Array K V))(declare-const D (Array K Bool))
(declare-const k1 K)(declare-const k2 K)(declare-const v1 V)(declare-const v2 V)
(declare-fun g (K) K)
(declare-fun app (S X) S)(declare-fun sortof (S) S)(declare-const s0 S)(declare-const x1 X)(declare-const x2 X)
(assert (distinct k1 k2))
`

func (w *World) pureCallee(c *ssa.CallCommon, inert map[string]bool) (bool, string) {
	if b, ok := c.Value.(*ssa.Builtin); ok {
		switch b.Name() {
		case "len", "cap", "min", "max":
			return true, ""
		}
		return false, "builtin " + b.Name()
	}
	f := c.StaticCallee()
	if f == nil {
		return false, "dynamic or interface call " + calleeLabel(c)
	}
	name := calleeName(f)
	if inert[name] {
		return true, ""
	}
	if f.Pkg == w.Pkg {
		if len(w.modSum[f]) == 0 && !w.callsUnknown(f, map[*ssa.Function]bool{}) {
			return true, ""
		}
		return false, "call of " + name + " (has side effects)"
	}
	// dependencies: reflect getters, strings, strconv, fmt.Sprint*, time formatting are pure
	p := f.Pkg.Pkg.Path()
	switch p {
	case "strings", "strconv", "unicode", "unicode/utf8", "math", "html", "net/url", "path/filepath", "errors":
		return true, ""
	case "reflect":
		if strings.Contains(name, ".Set") || strings.Contains(name, "Append") || strings.Contains(name, "Copy") {
			return false, "call of " + name
		}
		return true, ""
	case "fmt":
		if strings.HasPrefix(f.Name(), "Sprint") || f.Name() == "Errorf" {
			return true, ""
		}
	}
	return false, "call of " + name
}

// callsUnknown: the function (transitively) performs dynamic/interface calls or calls into
// packages with effects.
func (w *World) callsUnknown(f *ssa.Function, seen map[*ssa.Function]bool) bool {
	if seen[f] {
		return false
	}
	seen[f] = true
	for _, b := range f.Blocks {
		for _, in := range b.Instrs {
			c, ok := in.(ssa.CallInstruction)
			if !ok {
				continue
			}
			cc := c.Common()
			if _, isB := cc.Value.(*ssa.Builtin); isB {
				continue
			}
			t := cc.StaticCallee()
			if t == nil {
				return true
			}
			if t.Pkg == w.Pkg {
				if w.callsUnknown(t, seen) {
					return true
				}
				continue
			}
			switch t.Pkg.Pkg.Path() {
			case "strings", "strconv", "unicode", "unicode/utf8", "math", "html", "reflect", "fmt", "errors", "time", "sort", "bytes", "sync":
			default:
				return true
			}
		}
	}
	return false
}

func mapOrderFamily(w *World, prop string) ([]*Obligation, []string) {
	cf := w.Contracts
	exempt := map[string]string{}
	lst := cf.Lists["order_exempt"]
	for _, n := range expandFuncList(w, lst) {
		exempt[n] = "exempt"
	}
	inert := map[string]bool{}
	for _, n := range cf.Lists["order_inert_calls"] {
		inert[n] = true
	}
	injective := map[string]bool{}
	for _, n := range cf.Lists["order_injective_keys"] {
		injective[n] = true
	}
	insertCalls := map[string]int{}
	for _, n := range cf.Lists["order_insert_calls"] {
		if i := strings.LastIndex(n, ":"); i > 0 {
			k := 0
			fmt.Sscanf(n[i+1:], "%d", &k)
			insertCalls[n[:i]] = k
		}
	}
	var out []*Obligation
	nsites := 0
	for _, name := range sortedKeys(w.Funcs) {
		fn := w.Funcs[name]
		if exempt[name] != "" || len(fn.Blocks) == 0 {
			continue
		}
		// a map walked through an iterator (reflect.Value.MapRange) is walked in Go's map order like a
		// range loop, but the loop has another shape (Next/Key/Value) whose effects this family does
		// not analyse: outside the exempt functions it is refused
		mr := 0
		for _, b := range fn.Blocks {
			for _, in := range b.Instrs {
				if c, ok := in.(ssa.CallInstruction); ok {
					if sc := c.Common().StaticCallee(); sc != nil && sc.String() == "(reflect.Value).MapRange" {
						mr++
						pos, src := w.posAndSrc(in)
						out = append(out, &Obligation{Name: fmt.Sprintf("%s/maporder#iter%d", name, mr), Kind: "maporder", Func: name, Pos: pos, Src: src, PC: "true", Goal: "no map iterator", Props: []string{"C03"},
							Comment: "a map is walked through reflect.Value.MapRange (Go's map order): the effects of such a loop are not analysed, the keys have to be put in a fixed order first", Custom: "(set-logic ALL)(assert true)"})
					}
				}
			}
		}
		sites := findOrderSites(fn)
		for si, s := range sites {
			nsites++
			var effects []orderEffect
			addRefuted := func(desc string, at ssa.Instruction) {
				effects = append(effects, orderEffect{desc: desc, lemma: "", at: at})
			}
			addLemma := func(desc, lemma string, at ssa.Instruction) {
				effects = append(effects, orderEffect{desc: desc, lemma: lemma, at: at})
			}
			for _, b := range fn.Blocks {
				if !s.body[b.Index] {
					continue
				}
				for _, in := range b.Instrs {
					switch x := in.(type) {
					case *ssa.MapUpdate:
						if rootFresh(x.Map, 0) && inBody(x.Map, s.body) {
							continue // a map created inside this iteration
						}
						if injectiveOf(x.Key, s.iter, 0) {
							addLemma("insert at the visited key: inserts at two different keys commute", mapLemmaPrelude+"(assert (not (= (store (store M k1 v1) k2 v2) (store (store M k2 v2) k1 v1))))", x)
						} else if dependsOn(x.Key, s.iter, s.body, map[ssa.Value]bool{}) {
							kf := keyFunc(x.Key)
							if injective[kf] {
								addLemma("insert at a key derived from the visited key by "+kf+" (declared injective)", mapLemmaPrelude+"(assert (forall ((a K) (b K)) (=> (= (g a) (g b)) (= a b))))\n(assert (not (= (store (store M (g k1) v1) (g k2) v2) (store (store M (g k2) v2) (g k1) v1))))", x)
							} else {
								addLemma("insert at a key derived from the visited key by "+kf+": two entries may collide and the later one wins", mapLemmaPrelude+"(assert (not (= (store (store M (g k1) v1) (g k2) v2) (store (store M (g k2) v2) (g k1) v1))))", x)
							}
						} else {
							// fixed key: the value written must not depend on the entry
							if dependsOn(x.Value, s.iter, s.body, map[ssa.Value]bool{}) {
								addRefuted("a fixed map key receives a value that depends on the visited entry (last visited entry wins)", x)
							}
						}
					case *ssa.Store:
						if rootFresh(x.Addr, 0) && allocInBody(x.Addr, s.body) {
							continue
						}
						if dependsOn(x.Val, s.iter, s.body, map[ssa.Value]bool{}) {
							addRefuted("a store outside the iteration's own objects writes a value that depends on the visited entry (last visited entry wins)", x)
						}
					case *ssa.Return:
						dep := false
						for _, r := range x.Results {
							if dependsOn(r, s.iter, s.body, map[ssa.Value]bool{}) {
								dep = true
							}
						}
						if dep {
							addRefuted("returns from inside the loop with a value that depends on the entry visited first", x)
						}
					case *ssa.Call:
						if b, ok := x.Call.Value.(*ssa.Builtin); ok {
							switch b.Name() {
							case "delete":
								if injectiveOf(x.Call.Args[1], s.iter, 0) {
									addLemma("delete at the visited key: deletions at two different keys commute", mapLemmaPrelude+"(assert (not (= (store (store D k1 false) k2 false) (store (store D k2 false) k1 false))))", x)
								} else {
									addRefuted("delete at a key that is not the visited key", x)
								}
							case "append":
								if !dependsOn(x.Call.Args[1], s.iter, s.body, map[ssa.Value]bool{}) && !dependsOnSliceArg(x, s) {
									continue
								}
								if appendSortedAfter(x, s) {
									addLemma("append to a slice that is sorted before any other use (sort depends only on the multiset: assumed contract of package sort)", mapLemmaPrelude+"(assert (forall ((a S) (p X) (q X)) (= (sortof (app (app a p) q)) (sortof (app (app a q) p)))))\n(assert (not (= (sortof (app (app s0 x1) x2)) (sortof (app (app s0 x2) x1)))))", x)
								} else {
									addLemma("append in visiting order to a slice that is used unsorted", mapLemmaPrelude+"(assert (not (= (app (app s0 x1) x2) (app (app s0 x2) x1))))", x)
								}
							case "len", "cap", "min", "max", "print", "println":
							default:
								addRefuted("builtin "+b.Name()+" inside a map-ordered loop", x)
							}
							continue
						}
						if f := x.Call.StaticCallee(); f != nil {
							// calls that are map inserts: reflect.Value.SetMapIndex(key, val) and the
							// functions declared in list order_insert_calls as <callee>:<key argument index>
							keyIdx := -1
							if f.String() == "(reflect.Value).SetMapIndex" {
								keyIdx = 1
							}
							if k, ok := insertCalls[calleeName(f)]; ok {
								keyIdx = k
							}
							if keyIdx >= 0 && keyIdx < len(x.Call.Args) {
								if injectiveOf(x.Call.Args[keyIdx], s.iter, 0) {
									addLemma("insert at the visited key (through "+calleeName(f)+"): inserts at two different keys commute", mapLemmaPrelude+"(assert (not (= (store (store M k1 v1) k2 v2) (store (store M k2 v2) k1 v1))))", x)
								} else if dependsOn(x.Call.Args[keyIdx], s.iter, s.body, map[ssa.Value]bool{}) {
									addLemma("insert (through "+calleeName(f)+") at a key derived from the visited key: two entries may collide", mapLemmaPrelude+"(assert (not (= (store (store M (g k1) v1) (g k2) v2) (store (store M (g k2) v2) (g k1) v1))))", x)
								} else {
									for _, a := range x.Call.Args {
										if dependsOn(a, s.iter, s.body, map[ssa.Value]bool{}) {
											addRefuted("a fixed key receives (through "+calleeName(f)+") a value that depends on the visited entry (last visited entry wins)", x)
											break
										}
									}
								}
								continue
							}
						}
						if pure, why := w.pureCallee(x.Common(), inert); !pure {
							addRefuted(why+": its effects happen in visiting order", x)
						}
					case *ssa.Defer, *ssa.Go:
						addRefuted("defer/go inside a map-ordered loop", x)
					}
				}
			}
			// loop-carried values other than the iterator: must be order-insensitive accumulations
			for _, in := range s.head.Instrs {
				phi, ok := in.(*ssa.Phi)
				if !ok {
					break
				}
				for j, p := range s.head.Preds {
					if !s.body[p.Index] {
						continue
					}
					e := phi.Edges[j]
					if e == phi {
						continue
					}
					if _, isSlice := phi.Type().Underlying().(*types.Slice); isSlice {
						continue // handled at the append
					}
					if !dependsOn(e, s.iter, s.body, map[ssa.Value]bool{}) {
						continue // e.g. i+1, found = true
					}
					if bo, ok := e.(*ssa.BinOp); ok && bo.Op == token.ADD && (bo.X == phi || bo.Y == phi) && w.sortOf(phi.Type()) == "Int" {
						addLemma("integer accumulation", "(set-logic ALL)(declare-const a Int)(declare-const p Int)(declare-const q Int)(assert (not (= (+ (+ a p) q) (+ (+ a q) p))))", bo)
						continue
					}
					addRefuted("the variable "+phi.Comment+" carries a value that depends on the visiting order from one iteration to the next", phi)
				}
			}
			if len(effects) == 0 {
				effects = append(effects, orderEffect{desc: "the loop body has no order-sensitive effect", lemma: "(set-logic ALL)(assert false)", at: s.at})
			}
			for ei, e := range effects {
				pos, src := w.posAndSrc(e.at)
				if pos == "" {
					pos, src = w.posAndSrc(s.at)
				}
				o := &Obligation{Name: fmt.Sprintf("%s/maporder#%d.%d", name, si+1, ei+1), Kind: "maporder", Func: name, Pos: pos, Src: src, PC: "true", Props: []string{"C03"},
					Comment: "map-ordered loop (" + s.kind + "): " + e.desc, Goal: "commutes"}
				if e.lemma == "" {
					o.Custom = "(set-logic ALL)(assert true)" // sat: refuted
				} else {
					o.Custom = e.lemma
				}
				out = append(out, o)
			}
		}
	}
	// The unsorted result of MapKeys must not leave the function (returned, stored, or handed to a
	// callee other than package sort): whoever walks it then does so in Go's map order, out of sight
	// of the loop analysis above.
	nesc := 0
	for _, name := range sortedKeys(w.Funcs) {
		fn := w.Funcs[name]
		if exempt[name] != "" || len(fn.Blocks) == 0 {
			continue
		}
		k := 0
		for _, b := range fn.Blocks {
			for _, in := range b.Instrs {
				call, ok := in.(*ssa.Call)
				if !ok {
					continue
				}
				if f := call.Call.StaticCallee(); f == nil || f.String() != "(reflect.Value).MapKeys" {
					continue
				}
				escs := escapesOf(call)
				if len(escs) == 0 {
					k++
					pos, src := w.posAndSrc(call)
					out = append(out, &Obligation{Name: fmt.Sprintf("%s/maporder-escape#%d", name, k), Kind: "maporder", Func: name, Pos: pos, Src: src, PC: "true", Goal: "stays local", Props: []string{"C03"},
						Comment: "the result of reflect.Value.MapKeys is only indexed, measured or sorted here before it goes anywhere else", Custom: "(set-logic ALL)(assert false)"})
				}
				for _, esc := range escs {
					k++
					nesc++
					pos, src := w.posAndSrc(esc)
					out = append(out, &Obligation{Name: fmt.Sprintf("%s/maporder-escape#%d", name, k), Kind: "maporder", Func: name, Pos: pos, Src: src, PC: "true", Goal: "stays local", Props: []string{"C03"},
						Comment: "the unsorted result of reflect.Value.MapKeys leaves the function through `" + esc.String() + "` (returned, stored or passed on): its order is Go's map order", Custom: "(set-logic ALL)(assert true)"})
				}
			}
		}
	}
	_ = nesc
	// A slice taken from a map (reflect MapKeys, or filled in a map range loop) and then sorted is in
	// an order that depends only on the map's contents only if the comparison cannot tie two different
	// entries: it has to compare an injective key of the two elements. sort.Strings/Ints/Float64s
	// compare the elements themselves; for sort.Slice/SliceStable the closure is examined: it must
	// return g(x[i]) < g(x[j]) (or >) for one chain g of calls that are all declared injective
	// (list order_injective_keys; reflect.Value.Interface is the identity on the value held).
	nsorts := 0
	for _, name := range sortedKeys(w.Funcs) {
		fn := w.Funcs[name]
		if exempt[name] != "" || len(fn.Blocks) == 0 {
			continue
		}
		k := 0
		for _, b := range fn.Blocks {
			for _, in := range b.Instrs {
				call, ok := in.(*ssa.Call)
				if !ok || !isSortCall(call.Common()) || len(call.Call.Args) != 2 {
					continue
				}
				callee := call.Call.StaticCallee().Name()
				if callee != "Slice" && callee != "SliceStable" {
					continue
				}
				if !mapDerived(call.Call.Args[0], 0) {
					continue
				}
				k++
				nsorts++
				okCmp, why := comparatorInjective(call.Call.Args[1], injective)
				pos, src := w.posAndSrc(call)
				o := &Obligation{Name: fmt.Sprintf("%s/sortkey#%d", name, k), Kind: "maporder", Func: name, Pos: pos, Src: src, PC: "true", Goal: "injective-key", Props: []string{"C03"},
					Comment: "a slice taken from a map is sorted by a comparison that cannot tie two different entries: " + why}
				if okCmp {
					o.Custom = "(set-logic ALL)(assert false)"
				} else {
					o.Custom = "(set-logic ALL)(assert true)" // sat: refuted
				}
				out = append(out, o)
			}
		}
	}
	return out, []string{fmt.Sprintf("map-ordered loops examined: %d; exempt functions: %d; sorts of map-derived slices examined: %d", nsites, len(exempt), nsorts)}
}

// mapDerived: the slice handed to a sort call comes from reflect.Value.MapKeys (directly or boxed).
func mapDerived(v ssa.Value, depth int) bool {
	if depth > 6 {
		return false
	}
	switch x := v.(type) {
	case *ssa.MakeInterface:
		return mapDerived(x.X, depth+1)
	case *ssa.Call:
		if f := x.Call.StaticCallee(); f != nil && f.String() == "(reflect.Value).MapKeys" {
			return true
		}
	case *ssa.Phi:
		for _, e := range x.Edges {
			if mapDerived(e, depth+1) {
				return true
			}
		}
	case *ssa.Slice:
		return mapDerived(x.X, depth+1)
	case *ssa.UnOp:
		// load of a local that is captured by the comparison closure
		if al, ok := x.X.(*ssa.Alloc); ok && x.Op == token.MUL {
			if refs := al.Referrers(); refs != nil {
				for _, r := range *refs {
					if st, ok := r.(*ssa.Store); ok && st.Addr == al && mapDerived(st.Val, depth+1) {
						return true
					}
				}
			}
		}
	}
	return false
}

// comparatorInjective examines a `less` closure: a single return of g(x[i]) < g(x[j]) or
// g(x[i]) > g(x[j]) with the same chain g of injective calls on both sides.
func comparatorInjective(less ssa.Value, injective map[string]bool) (bool, string) {
	mc, ok := less.(*ssa.MakeClosure)
	if !ok {
		return false, "the comparison is not a function literal"
	}
	fn, ok := mc.Fn.(*ssa.Function)
	if !ok || len(fn.Blocks) != 1 || len(fn.Params) != 2 {
		return false, "the comparison is not a single expression of its two indices"
	}
	var ret *ssa.Return
	for _, in := range fn.Blocks[0].Instrs {
		if r, ok := in.(*ssa.Return); ok {
			ret = r
		}
	}
	if ret == nil || len(ret.Results) != 1 {
		return false, "no single result"
	}
	bo, ok := ret.Results[0].(*ssa.BinOp)
	if !ok || (bo.Op != token.LSS && bo.Op != token.GTR) {
		return false, "the result is not a < or > comparison"
	}
	chain := func(v ssa.Value) (calls []string, idx ssa.Value, base ssa.Value, ok bool) {
		for depth := 0; depth < 12; depth++ {
			switch x := v.(type) {
			case *ssa.Call:
				f := x.Call.StaticCallee()
				if f == nil {
					return nil, nil, nil, false
				}
				args := x.Call.Args
				if len(args) != 1 {
					return nil, nil, nil, false
				}
				n := calleeName(f)
				if f.Pkg != nil && f.Pkg.Pkg.Path() != fn.Pkg.Pkg.Path() {
					n = f.String()
				}
				calls = append(calls, n)
				v = args[0]
			case *ssa.UnOp:
				if x.Op != token.MUL {
					return nil, nil, nil, false
				}
				ia, isIdx := x.X.(*ssa.IndexAddr)
				if !isIdx {
					return nil, nil, nil, false
				}
				return calls, ia.Index, ia.X, true
			case *ssa.ChangeType:
				v = x.X
			default:
				return nil, nil, nil, false
			}
		}
		return nil, nil, nil, false
	}
	c1, i1, b1, ok1 := chain(bo.X)
	c2, i2, b2, ok2 := chain(bo.Y)
	if !ok1 || !ok2 {
		return false, "an operand is not a chain of calls applied to an element of the sorted slice"
	}
	if strings.Join(c1, ";") != strings.Join(c2, ";") {
		return false, "the two operands are computed differently"
	}
	if !sameLoad(b1, b2) {
		return false, "the two operands come from different slices"
	}
	if !((i1 == ssa.Value(fn.Params[0]) && i2 == ssa.Value(fn.Params[1])) || (i1 == ssa.Value(fn.Params[1]) && i2 == ssa.Value(fn.Params[0]))) {
		return false, "the operands are not the elements at the two indices"
	}
	for _, n := range c1 {
		if n == "(reflect.Value).Interface" || injective[n] {
			continue
		}
		return false, "the key is computed by " + n + ", which is not declared injective (list order_injective_keys)"
	}
	return true, "compares " + strings.Join(c1, " of ") + " of the two elements"
}

// sameLoad: both values are loads of the same captured variable (or the same value).
func sameLoad(a, b ssa.Value) bool {
	if a == b {
		return true
	}
	ua, ok1 := a.(*ssa.UnOp)
	ub, ok2 := b.(*ssa.UnOp)
	return ok1 && ok2 && ua.Op == token.MUL && ub.Op == token.MUL && ua.X == ub.X
}

func inBody(v ssa.Value, body map[int]bool) bool {
	in, ok := v.(ssa.Instruction)
	return ok && in.Block() != nil && body[in.Block().Index]
}

func allocInBody(addr ssa.Value, body map[int]bool) bool {
	for depth := 0; depth < 10; depth++ {
		switch x := addr.(type) {
		case *ssa.FieldAddr:
			addr = x.X
		case *ssa.IndexAddr:
			addr = x.X
		case *ssa.Slice:
			addr = x.X
		case *ssa.Alloc:
			return x.Block() != nil && body[x.Block().Index]
		case *ssa.MakeSlice:
			return body[x.Block().Index]
		default:
			return false
		}
	}
	return false
}

func keyFunc(v ssa.Value) string {
	if c, ok := v.(*ssa.Call); ok {
		if f := c.Call.StaticCallee(); f != nil {
			return calleeName(f)
		}
	}
	if e, ok := v.(*ssa.Extract); ok {
		return keyFunc(e.Tuple)
	}
	return "an expression"
}

func dependsOnSliceArg(c *ssa.Call, s *orderSite) bool { return true }

// appendSortedAfter: the slice variable fed by this append is passed to sort.* after the loop,
// before any other use outside the loop.
func appendSortedAfter(app *ssa.Call, s *orderSite) bool {
	// follow the loop-carried phi that holds the slice
	var phi *ssa.Phi
	if refs := app.Referrers(); refs != nil {
		for _, r := range *refs {
			if p, ok := r.(*ssa.Phi); ok {
				phi = p
			}
		}
	}
	if phi == nil {
		return false
	}
	refs := phi.Referrers()
	if refs == nil {
		return false
	}
	sorted := false
	for _, r := range *refs {
		if r.Block() != nil && s.body[r.Block().Index] {
			continue
		}
		switch x := r.(type) {
		case *ssa.Call:
			if isSortCall(x.Common()) {
				sorted = true
			}
		case *ssa.MakeInterface:
			if rr := x.Referrers(); rr != nil {
				for _, r2 := range *rr {
					if c2, ok := r2.(*ssa.Call); ok && isSortCall(c2.Common()) {
						sorted = true
					}
				}
			}
		}
	}
	if !sorted {
		return false
	}
	// every use outside the loop is dominated by a sort call on it
	for _, r := range *refs {
		if r.Block() != nil && s.body[r.Block().Index] {
			continue
		}
		if _, isDbg := r.(*ssa.DebugRef); isDbg {
			continue
		}
		if c, ok := r.(*ssa.Call); ok && isSortCall(c.Common()) {
			continue
		}
		if c, ok := r.(*ssa.Call); ok {
			if b, isB := c.Call.Value.(*ssa.Builtin); isB && (b.Name() == "len" || b.Name() == "cap") {
				continue // the number of entries does not depend on the order
			}
		}
		if !sortedBefore(phi, r.Block()) && !sameBlockAfterSort(phi, r) {
			return false
		}
	}
	return true
}

func sameBlockAfterSort(v ssa.Value, use ssa.Instruction) bool {
	b := use.Block()
	for _, in := range b.Instrs {
		if in == use {
			return false
		}
		if c, ok := in.(*ssa.Call); ok && isSortCall(c.Common()) {
			for _, a := range c.Call.Args {
				if a == v {
					return true
				}
				if mi, ok := a.(*ssa.MakeInterface); ok && mi.X == v {
					return true
				}
			}
		}
	}
	return false
}
