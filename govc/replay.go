package main

// Replay of refuted obligations on the real package (DESIGN.md §4, Appendix D).
// A recipe turns the solver's model into a concrete input, injects an in-package test with
// `go test -overlay` (nothing is written into the repository) and observes the property being
// broken on the real code.

import (
	"bytes"
	"context"
	"encoding/json"
	"fmt"
	"go/types"
	"os"
	"os/exec"
	"path/filepath"
	"strconv"
	"strings"
	"time"
)

type replayRecipe func(w *World, prop string, o *Obligation, rp *Replay) bool

var replayRecipes = map[string]replayRecipe{}

func runReplay(w *World, prop string, o *Obligation, rp *Replay) {
	if o.fx == nil {
		return
	}
	fn := displayName(o.fx.Fn)
	for _, key := range []string{fn + "/" + o.Kind, fn} {
		if r, ok := replayRecipes[key]; ok {
			if r(w, prop, o, rp) {
				return
			}
		}
	}
	// generic recipe: direct call with scalar arguments taken from the model
	if o.fx.C != nil && o.fx.C.Flags["replay_go"] != "" {
		if replayScalarCall(w, prop, o, rp) {
			return
		}
	}
	// safety obligations of plain functions over strings/integers/booleans: call and watch for a panic
	replayPanic(w, prop, o, rp)
}

// modelInt parses an SMT integer value.
func modelInt(v string) (int64, bool) {
	v = strings.TrimSpace(v)
	neg := false
	if strings.HasPrefix(v, "(-") {
		neg = true
		v = strings.TrimSpace(strings.TrimSuffix(strings.TrimPrefix(v, "(-"), ")"))
	}
	n, err := strconv.ParseInt(v, 10, 64)
	if err != nil {
		return 0, false
	}
	if neg {
		n = -n
	}
	return n, true
}

// goLiteralFromModel renders a scalar parameter value as a Go literal.
func goLiteralFromModel(t types.Type, sym string, model map[string]string) (string, bool) {
	v, ok := model[sym]
	b, isBasic := t.Underlying().(*types.Basic)
	if !isBasic {
		return "", false
	}
	switch {
	case b.Info()&types.IsInteger != 0:
		if !ok {
			return "0", true
		}
		n, ok2 := modelInt(v)
		if !ok2 {
			return "", false
		}
		return fmt.Sprintf("%s(%d)", b.Name(), n), true
	case b.Info()&types.IsBoolean != 0:
		if !ok {
			return "false", true
		}
		return v, v == "true" || v == "false"
	}
	return "", false
}

// replayScalarCall: call the function with the model's arguments and evaluate the Go rendering of
// the postcondition (flag replay_go) on the real result.
func replayScalarCall(w *World, prop string, o *Obligation, rp *Replay) bool {
	fx := o.fx
	fn := fx.Fn
	if fn.Signature.Recv() != nil {
		return false
	}
	var args []string
	var decls []string
	hasString := false
	for _, p := range fn.Params {
		if b, ok := p.Type().Underlying().(*types.Basic); ok && b.Info()&types.IsString != 0 {
			hasString = true
		}
	}
	if hasString {
		// string parameters: a short witness, byte by byte (as for the panic recipe)
		d, n, ok := modelArgs(o)
		if !ok {
			return false
		}
		decls, args = d, n
	} else {
		for _, p := range fn.Params {
			lit, ok := goLiteralFromModel(p.Type(), fx.params[p.Name()].S, o.Answer.Model)
			if !ok {
				return false
			}
			args = append(args, p.Name())
			decls = append(decls, fmt.Sprintf("\t%s := %s", p.Name(), lit))
		}
	}
	nres := fn.Signature.Results().Len()
	var rets []string
	for i := 0; i < nres; i++ {
		rets = append(rets, fmt.Sprintf("ret%d", i))
	}
	call := fmt.Sprintf("%s(%s)", fn.Name(), strings.Join(args, ", "))
	if nres > 0 {
		call = strings.Join(rets, ", ") + " := " + call
	}
	// a function of one string: when the solver's witness does not fail on the real code (the model of a
	// function with a loop speaks about an arbitrary iteration, not about an input), the neighbourhood is
	// searched - every string up to length 4 over a small alphabet of the bytes the contracts speak about
	search := ""
	if hasString && len(fn.Params) == 1 && nres == 1 {
		pn := fn.Params[0].Name()
		search = fmt.Sprintf(`
	alphabet := []byte{' ', '\t', '\n', '\r', '\v', '\f', 'a', '<', '>', '&', '"', '\'', 0x80, 0}
	var walk func(prefix []byte, depth int)
	walk = func(prefix []byte, depth int) {
		%s := string(prefix)
		ret0 := %s(%s)
		if !(%s) {
			t.Fatalf("REPRODUCED by bounded search around the solver's model (strings up to length 4 over %%q): %s(%%q) = %%q violates the contract", alphabet, %s, ret0)
		}
		if depth == 4 {
			return
		}
		for _, c := range alphabet {
			walk(append(append([]byte{}, prefix...), c), depth+1)
		}
	}
	walk(nil, 0)
`, pn, fn.Name(), pn, fx.C.Flags["replay_go"], fn.Name(), pn)
	}
	body := fmt.Sprintf(`package twig

import "testing"

func TestVerifReplay(t *testing.T) {
%s
	%s
	_ = []interface{}{%s}
	if !(%s) {
		t.Fatalf("REPRODUCED: %%s violates the contract: result %%v", %s, []interface{}{%s})
	}
%s}
`, strings.Join(decls, "\n"), call, strings.Join(append(append([]string{}, args...), rets...), ", "),
		fx.C.Flags["replay_go"], strconv.Quote(fn.Name()+"("+strings.ReplaceAll(strings.Join(decls, "; "), "\t", "")+")"), strings.Join(rets, ", "), search)
	out, failed := runOverlayTest(w, body, "TestVerifReplay")
	rp.ReplayKind = "scalar_call"
	rp.ReplayInput = map[string]any{"test_source": body}
	rp.ReplayOut = out
	rp.Reproduced = failed && strings.Contains(out, "REPRODUCED")
	return true
}

// runOverlayTest injects the test (and the Go reference spec helpers) into the package and runs it.
// Returns the transcript and whether the test failed.
func runOverlayTest(w *World, testSrc, run string) (string, bool) {
	dir, err := os.MkdirTemp("", "govc-replay-")
	if err != nil {
		return err.Error(), false
	}
	defer os.RemoveAll(dir)
	tf := filepath.Join(dir, "zz_verif_replay_test.go")
	if err := os.WriteFile(tf, []byte(testSrc), 0o644); err != nil {
		return err.Error(), false
	}
	repl := map[string]string{filepath.Join(w.RepoDir, "zz_verif_replay_test.go"): tf}
	// Go reference implementations of the spec functions
	specGo := filepath.Join(verifDir, "replay", "spec_test.go.txt")
	if b, err := os.ReadFile(specGo); err == nil {
		sf := filepath.Join(dir, "zz_verif_spec_test.go")
		os.WriteFile(sf, b, 0o644)
		repl[filepath.Join(w.RepoDir, "zz_verif_spec_test.go")] = sf
	}
	ov, _ := json.Marshal(map[string]any{"Replace": repl})
	ovf := filepath.Join(dir, "overlay.json")
	os.WriteFile(ovf, ov, 0o644)
	ctx, cancel := context.WithTimeout(context.Background(), 120*time.Second)
	defer cancel()
	cmd := exec.CommandContext(ctx, "bash", "-c", fmt.Sprintf("ulimit -v 8000000; cd %s && go test -overlay %s -vet=off -timeout 60s -count=1 -run '^%s$' . 2>&1 | tail -40", w.RepoDir, ovf, run))
	var out bytes.Buffer
	cmd.Stdout = &out
	cmd.Stderr = &out
	cmd.Run()
	text := out.String()
	failed := strings.Contains(text, "--- FAIL") || strings.Contains(text, "panic:") || strings.Contains(text, "FAIL\t")
	return text, failed
}

// ---------------------------------------------------------------- generic replay of safety refutations
// For a refuted safety obligation (index, slice bound, division, type assertion, nil map, unhashable
// key, make) in a plain function whose parameters are strings, integers and booleans, the solver's
// model is turned into concrete arguments - strings byte by byte through get-value on slen/sat,
// asking for a short witness first - and the real function is called under `go test -overlay`; a
// panic is the reproduction.

// modelValues asks z3 for the values of the given terms in a model of the obligation's query
// (optionally under extra assertions). Returns nil when the query is not satisfiable (any more).
func modelValues(o *Obligation, extra []string, terms []string) []string {
	if len(terms) == 0 {
		return []string{}
	}
	body := o.query() + "\n" + strings.Join(extra, "\n") + "\n(check-sat)\n(get-value (" + strings.Join(terms, " ") + "))\n"
	f, err := os.CreateTemp("", "govc-mv-*.smt2")
	if err != nil {
		return nil
	}
	defer os.Remove(f.Name())
	f.WriteString(body)
	f.Close()
	ctx, cancel := context.WithTimeout(context.Background(), 30*time.Second)
	defer cancel()
	out, _ := exec.CommandContext(ctx, "z3-new", "-T:20", f.Name()).CombinedOutput()
	text := string(out)
	if firstLine(text) != "sat" {
		return nil
	}
	i := strings.Index(text, "((")
	if i < 0 {
		return nil
	}
	// parse ((term value) (term value) ...): values are the last s-expression of each pair
	var vals []string
	rest := text[i+1:]
	for len(vals) < len(terms) {
		j := strings.Index(rest, "(")
		if j < 0 {
			break
		}
		pair, k := readSexp(rest, j)
		if pair == "" {
			break
		}
		inner := strings.TrimSpace(pair[1 : len(pair)-1])
		// skip the term (first s-expression), keep the value
		_, e := readSexp(inner, 0)
		vals = append(vals, strings.TrimSpace(inner[e:]))
		rest = rest[k:]
	}
	if len(vals) != len(terms) {
		return nil
	}
	return vals
}

// modelArgs builds Go literals for the parameters from a (short) model.
func modelArgs(o *Obligation) (decls []string, names []string, ok bool) {
	fx := o.fx
	fn := fx.Fn
	var extra []string
	var strTerms []string
	for _, p := range fn.Params {
		b, isBasic := p.Type().Underlying().(*types.Basic)
		if !isBasic {
			return nil, nil, false
		}
		if b.Info()&types.IsString != 0 {
			strTerms = append(strTerms, fx.params[p.Name()].S)
		} else if b.Info()&(types.IsInteger|types.IsBoolean) == 0 {
			return nil, nil, false
		}
	}
	// prefer a witness with short strings
	for _, bound := range []int{8, 64, 2000, -1} {
		extra = extra[:0]
		if bound >= 0 {
			for _, t := range strTerms {
				extra = append(extra, fmt.Sprintf("(assert (<= (slen %s) %d))", t, bound))
			}
		}
		var lens []string
		for _, t := range strTerms {
			lens = append(lens, "(slen "+t+")")
		}
		lv := modelValues(o, extra, lens)
		if lv == nil {
			if len(strTerms) == 0 {
				return nil, nil, false
			}
			continue
		}
		// fix the lengths, then ask for bytes and scalars together
		var terms []string
		for i, t := range strTerms {
			n, okn := modelInt(lv[i])
			if !okn || n < 0 || n > 5000 {
				return nil, nil, false
			}
			extra = append(extra, fmt.Sprintf("(assert (= (slen %s) %d))", t, n))
			for k := int64(0); k < n; k++ {
				terms = append(terms, fmt.Sprintf("(sat %s %d)", t, k))
			}
		}
		for _, p := range fn.Params {
			if b := p.Type().Underlying().(*types.Basic); b.Info()&types.IsString == 0 {
				terms = append(terms, fx.params[p.Name()].S)
			}
		}
		vals := modelValues(o, extra, terms)
		if vals == nil {
			continue
		}
		pos := 0
		strVals := map[string]string{}
		for i, t := range strTerms {
			n, _ := modelInt(lv[i])
			var bs []byte
			for k := int64(0); k < n; k++ {
				v, okv := modelInt(vals[pos])
				pos++
				if !okv {
					return nil, nil, false
				}
				bs = append(bs, byte(((v%256)+256)%256))
			}
			strVals[t] = strconv.Quote(string(bs))
		}
		for _, p := range fn.Params {
			b := p.Type().Underlying().(*types.Basic)
			names = append(names, p.Name())
			if b.Info()&types.IsString != 0 {
				decls = append(decls, fmt.Sprintf("\t%s := %s", p.Name(), strVals[fx.params[p.Name()].S]))
				continue
			}
			v := vals[pos]
			pos++
			switch {
			case b.Info()&types.IsBoolean != 0:
				decls = append(decls, fmt.Sprintf("\t%s := %s", p.Name(), v))
			default:
				n, okv := modelInt(v)
				if !okv {
					return nil, nil, false
				}
				decls = append(decls, fmt.Sprintf("\tvar %s %s = %d", p.Name(), types.TypeString(p.Type(), func(*types.Package) string { return "" }), n))
			}
		}
		return decls, names, true
	}
	return nil, nil, false
}

// replayPanic: call the function with the model's arguments; a panic reproduces the refutation.
func replayPanic(w *World, prop string, o *Obligation, rp *Replay) bool {
	fn := o.fx.Fn
	if fn.Signature.Recv() != nil || fn.Parent() != nil || !safetyKinds[o.Kind] {
		return false
	}
	decls, names, ok := modelArgs(o)
	if !ok {
		return false
	}
	body := fmt.Sprintf(`package twig

import "testing"

func TestVerifReplay(t *testing.T) {
%s
	defer func() {
		if r := recover(); r != nil {
			t.Fatalf("REPRODUCED: %s panics: %%v", r)
		}
	}()
	%s(%s)
}
`, strings.Join(decls, "\n"), fn.Name(), fn.Name(), strings.Join(names, ", "))
	out, failed := runOverlayTest(w, body, "TestVerifReplay")
	rp.ReplayKind = "panic_call"
	rp.ReplayInput = map[string]any{"test_source": body}
	rp.ReplayOut = out
	rp.Reproduced = failed && strings.Contains(out, "REPRODUCED")
	return true
}
