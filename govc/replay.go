package main

// Replay of refuted obligations on the real package (DESIGN.md §4, Appendix D).
// A recipe turns the solver's model into a concrete input, injects an in-package test with
// `go test -overlay` (nothing is written into the repository) and observes the property being
// broken on the real code.

import (
	"bytes"
	"context"
	"encoding/json"
	"fmt"
	"go/types"
	"os"
	"os/exec"
	"path/filepath"
	"strconv"
	"strings"
	"time"
)

type replayRecipe func(w *World, prop string, o *Obligation, rp *Replay) bool

var replayRecipes = map[string]replayRecipe{}

func runReplay(w *World, prop string, o *Obligation, rp *Replay) {
	if o.fx == nil {
		return
	}
	fn := displayName(o.fx.Fn)
	for _, key := range []string{fn + "/" + o.Kind, fn} {
		if r, ok := replayRecipes[key]; ok {
			if r(w, prop, o, rp) {
				return
			}
		}
	}
	// generic recipe: direct call with scalar arguments taken from the model
	if o.fx.C != nil && o.fx.C.Flags["replay_go"] != "" {
		replayScalarCall(w, prop, o, rp)
	}
}

// modelInt parses an SMT integer value.
func modelInt(v string) (int64, bool) {
	v = strings.TrimSpace(v)
	neg := false
	if strings.HasPrefix(v, "(-") {
		neg = true
		v = strings.TrimSpace(strings.TrimSuffix(strings.TrimPrefix(v, "(-"), ")"))
	}
	n, err := strconv.ParseInt(v, 10, 64)
	if err != nil {
		return 0, false
	}
	if neg {
		n = -n
	}
	return n, true
}

// goLiteralFromModel renders a scalar parameter value as a Go literal.
func goLiteralFromModel(t types.Type, sym string, model map[string]string) (string, bool) {
	v, ok := model[sym]
	b, isBasic := t.Underlying().(*types.Basic)
	if !isBasic {
		return "", false
	}
	switch {
	case b.Info()&types.IsInteger != 0:
		if !ok {
			return "0", true
		}
		n, ok2 := modelInt(v)
		if !ok2 {
			return "", false
		}
		return fmt.Sprintf("%s(%d)", b.Name(), n), true
	case b.Info()&types.IsBoolean != 0:
		if !ok {
			return "false", true
		}
		return v, v == "true" || v == "false"
	}
	return "", false
}

// replayScalarCall: call the function with the model's arguments and evaluate the Go rendering of
// the postcondition (flag replay_go) on the real result.
func replayScalarCall(w *World, prop string, o *Obligation, rp *Replay) bool {
	fx := o.fx
	fn := fx.Fn
	if fn.Signature.Recv() != nil {
		return false
	}
	var args []string
	var decls []string
	for _, p := range fn.Params {
		lit, ok := goLiteralFromModel(p.Type(), fx.params[p.Name()].S, o.Answer.Model)
		if !ok {
			return false
		}
		args = append(args, p.Name())
		decls = append(decls, fmt.Sprintf("\t%s := %s", p.Name(), lit))
	}
	nres := fn.Signature.Results().Len()
	var rets []string
	for i := 0; i < nres; i++ {
		rets = append(rets, fmt.Sprintf("ret%d", i))
	}
	call := fmt.Sprintf("%s(%s)", fn.Name(), strings.Join(args, ", "))
	if nres > 0 {
		call = strings.Join(rets, ", ") + " := " + call
	}
	body := fmt.Sprintf(`package twig

import "testing"

func TestVerifReplay(t *testing.T) {
%s
	%s
	_ = []interface{}{%s}
	if !(%s) {
		t.Fatalf("REPRODUCED: %s(%s) = %%v violates the contract", []interface{}{%s})
	}
}
`, strings.Join(decls, "\n"), call, strings.Join(append(append([]string{}, args...), rets...), ", "),
		fx.C.Flags["replay_go"], fn.Name(), strings.ReplaceAll(strings.Join(decls, "; "), "\t", ""), strings.Join(rets, ", "))
	out, failed := runOverlayTest(w, body, "TestVerifReplay")
	rp.ReplayKind = "scalar_call"
	rp.ReplayInput = map[string]any{"test_source": body}
	rp.ReplayOut = out
	rp.Reproduced = failed && strings.Contains(out, "REPRODUCED")
	return true
}

// runOverlayTest injects the test (and the Go reference spec helpers) into the package and runs it.
// Returns the transcript and whether the test failed.
func runOverlayTest(w *World, testSrc, run string) (string, bool) {
	dir, err := os.MkdirTemp("", "govc-replay-")
	if err != nil {
		return err.Error(), false
	}
	defer os.RemoveAll(dir)
	tf := filepath.Join(dir, "zz_verif_replay_test.go")
	if err := os.WriteFile(tf, []byte(testSrc), 0o644); err != nil {
		return err.Error(), false
	}
	repl := map[string]string{filepath.Join(w.RepoDir, "zz_verif_replay_test.go"): tf}
	// Go reference implementations of the spec functions
	specGo := filepath.Join(verifDir, "replay", "spec_test.go.txt")
	if b, err := os.ReadFile(specGo); err == nil {
		sf := filepath.Join(dir, "zz_verif_spec_test.go")
		os.WriteFile(sf, b, 0o644)
		repl[filepath.Join(w.RepoDir, "zz_verif_spec_test.go")] = sf
	}
	ov, _ := json.Marshal(map[string]any{"Replace": repl})
	ovf := filepath.Join(dir, "overlay.json")
	os.WriteFile(ovf, ov, 0o644)
	ctx, cancel := context.WithTimeout(context.Background(), 120*time.Second)
	defer cancel()
	cmd := exec.CommandContext(ctx, "bash", "-c", fmt.Sprintf("ulimit -v 8000000; cd %s && go test -overlay %s -vet=off -timeout 60s -count=1 -run '^%s$' . 2>&1 | tail -40", w.RepoDir, ovf, run))
	var out bytes.Buffer
	cmd.Stdout = &out
	cmd.Stderr = &out
	cmd.Run()
	text := out.String()
	failed := strings.Contains(text, "--- FAIL") || strings.Contains(text, "panic:") || strings.Contains(text, "FAIL\t")
	return text, failed
}
