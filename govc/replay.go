package main

// Replay of refuted obligations on the real package (DESIGN.md §4, Appendix D).

// replayRecipes maps an obligation (by function and kind) to a recipe that turns the model into a
// concrete input and observes the property being broken on the real code.
type replayRecipe func(w *World, prop string, o *Obligation, rp *Replay) bool

var replayRecipes = map[string]replayRecipe{}

func runReplay(w *World, prop string, o *Obligation, rp *Replay) {
	fn := displayName(o.fx.Fn)
	for _, key := range []string{fn + "/" + o.Kind, fn} {
		if r, ok := replayRecipes[key]; ok {
			if r(w, prop, o, rp) {
				return
			}
		}
	}
}
