package main

// sync.Pool typing: inferred from the pool's New function and every Put site (DESIGN.md F5).

import (
	"go/types"

	"golang.org/x/tools/go/ssa"
)

type poolInfo struct {
	global   *ssa.Global
	elem     types.Type // common static type of New results and Put arguments (nil = inconsistent)
	newFn    *ssa.Function
	putSites []ssa.CallInstruction
	getSites []ssa.CallInstruction
	conflict []string
}

func (w *World) poolOf(v ssa.Value) *poolInfo {
	g, ok := v.(*ssa.Global)
	if !ok {
		return nil
	}
	w.buildPools()
	return w.pools[g]
}

func isSyncPool(t types.Type) bool {
	n, ok := t.(*types.Named)
	return ok && n.Obj().Pkg() != nil && n.Obj().Pkg().Path() == "sync" && n.Obj().Name() == "Pool"
}

func (w *World) buildPools() {
	if w.pools != nil {
		return
	}
	w.pools = map[*ssa.Global]*poolInfo{}
	for _, g := range w.globalList {
		if isSyncPool(g.Type().(*types.Pointer).Elem()) {
			w.pools[g] = &poolInfo{global: g}
		}
	}
	note := func(pi *poolInfo, t types.Type, where string) {
		if pi.elem == nil && len(pi.conflict) == 0 {
			pi.elem = t
			return
		}
		if pi.elem != nil && !types.Identical(pi.elem, t) {
			pi.conflict = append(pi.conflict, where+": "+t.String()+" vs "+pi.elem.String())
			pi.elem = nil
		}
	}
	for _, f := range w.AllFuncs {
		for _, b := range f.Blocks {
			for _, in := range b.Instrs {
				switch x := in.(type) {
				case *ssa.Store:
					fa, ok := x.Addr.(*ssa.FieldAddr)
					if !ok {
						continue
					}
					g, ok := fa.X.(*ssa.Global)
					if !ok || w.pools[g] == nil {
						continue
					}
					var nf *ssa.Function
					switch v := x.Val.(type) {
					case *ssa.Function:
						nf = v
					case *ssa.MakeClosure:
						nf, _ = v.Fn.(*ssa.Function)
					}
					if nf == nil {
						continue
					}
					pi := w.pools[g]
					pi.newFn = nf
					for _, nb := range nf.Blocks {
						for _, ni := range nb.Instrs {
							if r, ok := ni.(*ssa.Return); ok && len(r.Results) == 1 {
								if mi, ok := r.Results[0].(*ssa.MakeInterface); ok {
									note(pi, mi.X.Type(), "New")
								} else {
									pi.conflict = append(pi.conflict, "New returns a non-literal interface value")
									pi.elem = nil
								}
							}
						}
					}
				case ssa.CallInstruction:
					c := x.Common()
					callee := c.StaticCallee()
					if callee == nil || callee.Pkg == nil || callee.Pkg.Pkg.Path() != "sync" || len(c.Args) == 0 {
						continue
					}
					g, ok := c.Args[0].(*ssa.Global)
					if !ok || w.pools[g] == nil {
						continue
					}
					pi := w.pools[g]
					switch callee.Name() {
					case "Put":
						pi.putSites = append(pi.putSites, x)
						if mi, ok := c.Args[1].(*ssa.MakeInterface); ok {
							note(pi, mi.X.Type(), "Put in "+displayName(f))
						} else {
							pi.conflict = append(pi.conflict, "Put of an interface value in "+displayName(f))
							pi.elem = nil
						}
					case "Get":
						pi.getSites = append(pi.getSites, x)
					}
				}
			}
		}
	}
}
