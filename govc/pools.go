package main

// sync.Pool typing: inferred from the pool's New function and every Put site (DESIGN.md F5).

import (
	"go/types"

	"golang.org/x/tools/go/ssa"
)

type poolInfo struct {
	global   *ssa.Global // nil for a pool held in a struct field
	field    *types.Var  // the struct field holding the pool (nil for a package-level pool)
	owner    string      // "<Type>.<field>" for a field pool
	elem     types.Type  // common static type of New results and Put arguments (nil = inconsistent)
	newFn    *ssa.Function
	putSites []ssa.CallInstruction
	getSites []ssa.CallInstruction
	conflict []string
}

func (w *World) poolOf(v ssa.Value) *poolInfo {
	w.buildPools()
	if k := poolKey(v); k != nil {
		return w.pools[k]
	}
	return nil
}

// name of the pool in contracts and lists: the global's name, or "<Type>.<field>"
func (pi *poolInfo) name() string {
	if pi.global != nil {
		return pi.global.Name()
	}
	return pi.owner
}

// poolKey: what identifies the pool an address denotes - the package-level variable, or the
// struct field (all objects of the struct type share one typing: every New and every Put through
// that field, anywhere in the package, has to agree).
func poolKey(v ssa.Value) interface{} {
	switch x := v.(type) {
	case *ssa.Global:
		return x
	case *ssa.FieldAddr:
		if fv := poolFieldVar(x); fv != nil {
			return fv
		}
	}
	return nil
}

func poolFieldVar(fa *ssa.FieldAddr) *types.Var {
	pt, ok := fa.X.Type().Underlying().(*types.Pointer)
	if !ok {
		return nil
	}
	st, ok := pt.Elem().Underlying().(*types.Struct)
	if !ok {
		return nil
	}
	f := st.Field(fa.Field)
	if !isSyncPool(f.Type()) {
		return nil
	}
	return f
}

func isSyncPool(t types.Type) bool {
	n, ok := t.(*types.Named)
	return ok && n.Obj().Pkg() != nil && n.Obj().Pkg().Path() == "sync" && n.Obj().Name() == "Pool"
}

func (w *World) buildPools() {
	if w.pools != nil {
		return
	}
	w.pools = map[interface{}]*poolInfo{}
	for _, g := range w.globalList {
		if isSyncPool(g.Type().(*types.Pointer).Elem()) {
			w.pools[g] = &poolInfo{global: g}
		}
	}
	// pools held in struct fields: one entry per field; an address of the field that is used for
	// anything but Get, Put and the assignment of New (copied, passed on, stored) makes the typing
	// unknown
	for _, f := range w.AllFuncs {
		for _, b := range f.Blocks {
			for _, in := range b.Instrs {
				fa, ok := in.(*ssa.FieldAddr)
				if !ok {
					continue
				}
				fv := poolFieldVar(fa)
				if fv == nil {
					continue
				}
				pi := w.pools[fv]
				if pi == nil {
					owner := ""
					if pt, ok := fa.X.Type().Underlying().(*types.Pointer); ok {
						owner = namedTypeName(pt.Elem())
					}
					pi = &poolInfo{field: fv, owner: owner + "." + fv.Name()}
					w.pools[fv] = pi
				}
				if fa.Referrers() != nil {
					for _, r := range *fa.Referrers() {
						switch u := r.(type) {
						case *ssa.FieldAddr:
							continue
						case ssa.CallInstruction:
							c := u.Common()
							if callee := c.StaticCallee(); callee != nil && callee.Pkg != nil && callee.Pkg.Pkg.Path() == "sync" && len(c.Args) > 0 && c.Args[0] == ssa.Value(fa) {
								continue
							}
						case *ssa.DebugRef:
							continue
						}
						pi.conflict = append(pi.conflict, "the pool field is used other than through Get/Put/New in "+displayName(f))
					}
				}
			}
		}
	}
	note := func(pi *poolInfo, t types.Type, where string) {
		if pi.elem == nil && len(pi.conflict) == 0 {
			pi.elem = t
			return
		}
		if pi.elem != nil && !types.Identical(pi.elem, t) {
			pi.conflict = append(pi.conflict, where+": "+t.String()+" vs "+pi.elem.String())
			pi.elem = nil
		}
	}
	for _, f := range w.AllFuncs {
		for _, b := range f.Blocks {
			for _, in := range b.Instrs {
				switch x := in.(type) {
				case *ssa.Store:
					fa, ok := x.Addr.(*ssa.FieldAddr)
					if !ok {
						continue
					}
					g := poolKey(fa.X)
					if g == nil || w.pools[g] == nil {
						continue
					}
					var nf *ssa.Function
					switch v := x.Val.(type) {
					case *ssa.Function:
						nf = v
					case *ssa.MakeClosure:
						nf, _ = v.Fn.(*ssa.Function)
					}
					if nf == nil {
						continue
					}
					pi := w.pools[g]
					pi.newFn = nf
					for _, nb := range nf.Blocks {
						for _, ni := range nb.Instrs {
							if r, ok := ni.(*ssa.Return); ok && len(r.Results) == 1 {
								if mi, ok := r.Results[0].(*ssa.MakeInterface); ok {
									note(pi, mi.X.Type(), "New")
								} else {
									pi.conflict = append(pi.conflict, "New returns a non-literal interface value")
									pi.elem = nil
								}
							}
						}
					}
				case ssa.CallInstruction:
					c := x.Common()
					callee := c.StaticCallee()
					if callee == nil || callee.Pkg == nil || callee.Pkg.Pkg.Path() != "sync" || len(c.Args) == 0 {
						continue
					}
					g := poolKey(c.Args[0])
					if g == nil || w.pools[g] == nil {
						continue
					}
					pi := w.pools[g]
					switch callee.Name() {
					case "Put":
						pi.putSites = append(pi.putSites, x)
						if mi, ok := c.Args[1].(*ssa.MakeInterface); ok {
							note(pi, mi.X.Type(), "Put in "+displayName(f))
						} else {
							pi.conflict = append(pi.conflict, "Put of an interface value in "+displayName(f))
							pi.elem = nil
						}
					case "Get":
						pi.getSites = append(pi.getSites, x)
					}
				}
			}
		}
	}
}
