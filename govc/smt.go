package main

// SMT layer: sort naming, prelude, solver racing.

import (
	"bytes"
	"context"
	"fmt"
	"os"
	"os/exec"
	"path/filepath"
	"regexp"
	"sort"
	"strings"
	"sync"
	"sync/atomic"
	"time"
)

// Result of one obligation.
type Verdict int

const (
	VUnknown Verdict = iota
	VUnsat           // discharged
	VSat             // refuted, model available
)

func (v Verdict) String() string {
	switch v {
	case VUnsat:
		return "unsat"
	case VSat:
		return "sat"
	}
	return "unknown"
}

type SolverAnswer struct {
	Verdict Verdict
	Solver  string
	Output  string // raw solver output (first 8k)
	Model   map[string]string
	Secs    float64
}

type solverSpec struct {
	name string
	argv func(file string, timeoutS int) []string
	pre  string // text placed before the query
}

var solvers = []solverSpec{
	{name: "z3-new", argv: func(f string, t int) []string { return []string{"z3-new", fmt.Sprintf("-T:%d", t), f} }},
	{name: "z3", argv: func(f string, t int) []string { return []string{"z3", fmt.Sprintf("-T:%d", t), f} }},
	{name: "cvc5", argv: func(f string, t int) []string {
		return []string{"cvc5", "--incremental", "--produce-models", fmt.Sprintf("--tlimit=%d", t*1000), f}
	}},
	// quantifier instantiation order decides whether a heavily quantified goal closes in a second or
	// not at all: the same solver with other seeds takes part in the race
	{name: "z3-new", argv: func(f string, t int) []string {
		return []string{"z3-new", fmt.Sprintf("-T:%d", t), "smt.random_seed=7", f}
	}},
	{name: "z3-new", argv: func(f string, t int) []string {
		return []string{"z3-new", fmt.Sprintf("-T:%d", t), "smt.random_seed=42", f}
	}},
	{name: "z3-new", argv: func(f string, t int) []string {
		return []string{"z3-new", fmt.Sprintf("-T:%d", t), "smt.random_seed=1234", "smt.qi.eager_threshold=20", f}
	}},
}

var solverStats sync.Map // name -> *int64 discharged count
var solverTimeNs int64

func bump(name string) {
	v, _ := solverStats.LoadOrStore(name, new(int64))
	atomic.AddInt64(v.(*int64), 1)
}

var scratchDir string

func initScratch() {
	d, err := os.MkdirTemp("", "govc-")
	if err != nil {
		panic(err)
	}
	scratchDir = d
}

func cleanupScratch() {
	if scratchDir != "" && !keepQueries {
		os.RemoveAll(scratchDir)
	}
}

var qcounter int64
var keepQueries bool

// runQuery races the solvers on the query text. fastFirst: try z3-new alone with a
// short timeout first (most obligations discharge in milliseconds).
func runQuery(query string, timeoutS int, wantModel bool) SolverAnswer {
	start := time.Now()
	defer func() { atomic.AddInt64(&solverTimeNs, int64(time.Since(start))) }()
	id := atomic.AddInt64(&qcounter, 1)
	file := filepath.Join(scratchDir, fmt.Sprintf("q%d.smt2", id))
	body := query + "\n(check-sat)\n"
	if wantModel {
		body += "(get-model)\n"
	}
	if err := os.WriteFile(file, []byte(body), 0o644); err != nil {
		return SolverAnswer{Verdict: VUnknown, Output: err.Error()}
	}
	if !keepQueries {
		defer os.Remove(file)
	}

	// stage 1: z3-new alone, 2s
	first := runOne(solvers[0], file, min(2, timeoutS))
	if first.Verdict != VUnknown {
		first.Secs = time.Since(start).Seconds()
		return first
	}
	// stage 2: race all
	ctx, cancel := context.WithCancel(context.Background())
	defer cancel()
	ch := make(chan SolverAnswer, len(solvers))
	for _, s := range solvers {
		s := s
		go func() { ch <- runOneCtx(ctx, s, file, timeoutS) }()
	}
	var last SolverAnswer
	outs := []string{}
	for range solvers {
		a := <-ch
		if a.Verdict != VUnknown {
			a.Secs = time.Since(start).Seconds()
			return a
		}
		outs = append(outs, a.Solver+": "+firstLine(a.Output))
		last = a
	}
	last.Output = strings.Join(outs, " | ")
	last.Solver = "none"
	last.Secs = time.Since(start).Seconds()
	return last
}

// firstLine: the first line of the solver's output that is not a warning.
func firstLine(s string) string {
	for _, l := range strings.Split(strings.TrimSpace(s), "\n") {
		l = strings.TrimSpace(l)
		if l == "" || strings.HasPrefix(l, "WARNING") {
			continue
		}
		return l
	}
	return ""
}

func runOne(s solverSpec, file string, timeoutS int) SolverAnswer {
	return runOneCtx(context.Background(), s, file, timeoutS)
}

func runOneCtx(ctx context.Context, s solverSpec, file string, timeoutS int) SolverAnswer {
	argv := s.argv(file, timeoutS)
	cctx, cancel := context.WithTimeout(ctx, time.Duration(timeoutS+2)*time.Second)
	defer cancel()
	cmd := exec.CommandContext(cctx, argv[0], argv[1:]...)
	var out bytes.Buffer
	cmd.Stdout = &out
	cmd.Stderr = &out
	_ = cmd.Run()
	text := out.String()
	if len(text) > 1<<16 {
		text = text[:1<<16]
	}
	ans := SolverAnswer{Solver: s.name, Output: text}
	switch firstLine(text) {
	case "unsat":
		ans.Verdict = VUnsat
		bump(s.name)
	case "sat":
		ans.Verdict = VSat
		ans.Model = parseModel(text)
	}
	return ans
}

var modelDefRe = regexp.MustCompile(`\(define-fun\s+(\S+)\s+\(\)\s+(\S+)\s+`)

// parseModel extracts 0-ary definitions "(define-fun name () Sort value)" from a model.
func parseModel(text string) map[string]string {
	m := map[string]string{}
	idx := modelDefRe.FindAllStringSubmatchIndex(text, -1)
	for _, loc := range idx {
		name := text[loc[2]:loc[3]]
		// value extends from loc[1] to the matching close paren of the define-fun
		start := loc[1]
		depth := 0
		end := start
		for end < len(text) {
			c := text[end]
			if c == '(' {
				depth++
			} else if c == ')' {
				if depth == 0 {
					break
				}
				depth--
			}
			end++
		}
		val := strings.TrimSpace(text[start:end])
		val = strings.Join(strings.Fields(val), " ")
		m[strings.Trim(name, "|")] = val
	}
	return m
}

// smtInt renders an integer literal.
func smtInt(n int64) string {
	if n < 0 {
		if n == -9223372036854775808 {
			return "(- 9223372036854775808)"
		}
		return fmt.Sprintf("(- %d)", -n)
	}
	return fmt.Sprintf("%d", n)
}

func smtBigStr(s string) string { // decimal string possibly negative
	if strings.HasPrefix(s, "-") {
		return "(- " + s[1:] + ")"
	}
	return s
}

func and(xs ...string) string {
	ys := xs[:0:0]
	for _, x := range xs {
		if x == "true" || x == "" {
			continue
		}
		if x == "false" {
			return "false"
		}
		ys = append(ys, x)
	}
	switch len(ys) {
	case 0:
		return "true"
	case 1:
		return ys[0]
	}
	return "(and " + strings.Join(ys, " ") + ")"
}

func or(xs ...string) string {
	ys := xs[:0:0]
	for _, x := range xs {
		if x == "false" || x == "" {
			continue
		}
		if x == "true" {
			return "true"
		}
		ys = append(ys, x)
	}
	switch len(ys) {
	case 0:
		return "false"
	case 1:
		return ys[0]
	}
	return "(or " + strings.Join(ys, " ") + ")"
}

func not(x string) string {
	switch x {
	case "true":
		return "false"
	case "false":
		return "true"
	}
	if strings.HasPrefix(x, "(not ") && balanced(x[5:len(x)-1]) {
		return x[5 : len(x)-1]
	}
	return "(not " + x + ")"
}

func balanced(s string) bool {
	d := 0
	for _, c := range s {
		if c == '(' {
			d++
		} else if c == ')' {
			d--
			if d < 0 {
				return false
			}
		}
	}
	return d == 0
}

func implies(a, b string) string {
	if a == "true" {
		return b
	}
	if a == "false" || b == "true" {
		return "true"
	}
	return "(=> " + a + " " + b + ")"
}

func ite(c, a, b string) string {
	if c == "true" {
		return a
	}
	if c == "false" {
		return b
	}
	if a == b {
		return a
	}
	return "(ite " + c + " " + a + " " + b + ")"
}

func eq(a, b string) string {
	if a == b {
		return "true"
	}
	return "(= " + a + " " + b + ")"
}

var sanitizeRe = regexp.MustCompile(`[^A-Za-z0-9_]`)

func sanitize(s string) string { return sanitizeRe.ReplaceAllString(s, "_") }

// basePrelude is shared by all queries.
const basePrelude = `(set-option :produce-models true)
(set-logic ALL)
(declare-sort Str 0)
(declare-sort F 0)
(declare-sort U 0)
(declare-fun slen (Str) Int)
(assert (forall ((s Str)) (! (>= (slen s) 0) :pattern ((slen s)))))
(declare-fun sat (Str Int) Int)
(declare-datatypes ((Slice 0)) (((mk-slice (s.arr Int) (s.off Int) (s.len Int) (s.cap Int)))))
(declare-datatypes ((Iface 0)) (((mk-iface (i.tag Int) (i.pay Int)))))
(define-fun nil-iface () Iface (mk-iface 0 0))
(define-fun nil-slice () Slice (mk-slice 0 0 0 0))
(define-fun in64 ((x Int)) Bool (and (<= (- 9223372036854775808) x) (<= x 9223372036854775807)))
(define-fun imin ((a Int) (b Int)) Int (ite (<= a b) a b))
(define-fun imax ((a Int) (b Int)) Int (ite (>= a b) a b))
(define-fun tdiv ((a Int) (b Int)) Int (ite (>= a 0) (ite (> b 0) (div a b) (- (div a (- b)))) (ite (> b 0) (- (div (- a) b)) (div (- a) (- b)))))
(define-fun tmod ((a Int) (b Int)) Int (- a (* b (tdiv a b))))
`

func sortedKeys[V any](m map[string]V) []string {
	ks := make([]string, 0, len(m))
	for k := range m {
		ks = append(ks, k)
	}
	sort.Strings(ks)
	return ks
}
