package main

// Opt-in help for the solvers (contract flag `instantiate yes`): a fact of the form
// "for every index k of slice S ..." that the function has been told (a callee's postcondition, a loop
// invariant at the head, a precondition) is instantiated by hand at every position at which the
// function then indexes S. An instance of an assumed fact adds nothing that was not assumed; it spares
// the solver the search for the instance among the many quantified facts of a long function (arithmetic
// in the pattern, "(+ off k)", is where e-matching is weakest). Used where a goal was proved by one
// solver only and close to the time limit.

import (
	"strings"
)

type qfact struct {
	pc     string   // path condition under which the fact was assumed
	guards []string // antecedents on the way to the quantifier
	v      string   // bound variable
	body   string
}

// sexprEnd returns the index just past the s-expression that starts at s[i].
func sexprEnd(s string, i int) int {
	if i >= len(s) {
		return i
	}
	if s[i] != '(' {
		j := i
		for j < len(s) && s[j] != ' ' && s[j] != ')' && s[j] != '\n' {
			if s[j] == '|' {
				j++
				for j < len(s) && s[j] != '|' {
					j++
				}
			}
			if s[j] == '"' {
				j++
				for j < len(s) && s[j] != '"' {
					j++
				}
			}
			j++
		}
		return j
	}
	depth := 0
	for j := i; j < len(s); j++ {
		switch s[j] {
		case '(':
			depth++
		case ')':
			depth--
			if depth == 0 {
				return j + 1
			}
		case '"':
			j++
			for j < len(s) && s[j] != '"' {
				j++
			}
		case '|':
			j++
			for j < len(s) && s[j] != '|' {
				j++
			}
		}
	}
	return len(s)
}

func sexprArgs(s string) (head string, args []string) {
	// s = "(head a1 a2 ...)"
	if len(s) < 2 || s[0] != '(' {
		return "", nil
	}
	i := 1
	for i < len(s) && s[i] == ' ' {
		i++
	}
	j := sexprEnd(s, i)
	head = s[i:j]
	i = j
	for i < len(s)-1 {
		for i < len(s) && (s[i] == ' ' || s[i] == '\n') {
			i++
		}
		if i >= len(s)-1 {
			break
		}
		j = sexprEnd(s, i)
		args = append(args, s[i:j])
		i = j
	}
	return head, args
}

// collectForalls walks the positive positions of a formula and records the quantified facts with a
// single integer variable.
func (fx *FnExec) collectForalls(t string, guards []string, depth int) {
	if depth > 6 || !strings.Contains(t, "(forall ((") {
		return
	}
	head, args := sexprArgs(t)
	switch head {
	case "and":
		for _, a := range args {
			fx.collectForalls(a, guards, depth+1)
		}
	case "=>":
		if len(args) == 2 {
			fx.collectForalls(args[1], append(append([]string{}, guards...), args[0]), depth+1)
		}
	case "!":
		if len(args) >= 1 {
			fx.collectForalls(args[0], guards, depth+1)
		}
	case "forall":
		if len(args) != 2 {
			return
		}
		// args[0] = ((v Int)) exactly one variable of sort Int
		b := strings.TrimSpace(args[0])
		if !strings.HasPrefix(b, "((") || !strings.HasSuffix(b, " Int))") || strings.Count(b, "(") != 2 {
			return
		}
		v := strings.TrimSuffix(strings.TrimPrefix(b, "(("), " Int))")
		if len(fx.qfacts) < 64 {
			fx.qfacts = append(fx.qfacts, qfact{pc: fx.cur.pc, guards: append([]string{}, guards...), v: v, body: args[1]})
		}
	}
}

// replaceVar substitutes the term for the bound variable (whole tokens only).
func replaceVar(body, v, term string) string {
	var sb strings.Builder
	i := 0
	for i < len(body) {
		j := strings.Index(body[i:], v)
		if j < 0 {
			sb.WriteString(body[i:])
			break
		}
		j += i
		before := j == 0 || body[j-1] == ' ' || body[j-1] == '('
		after := j+len(v) >= len(body) || body[j+len(v)] == ' ' || body[j+len(v)] == ')'
		sb.WriteString(body[i:j])
		if before && after {
			sb.WriteString(term)
		} else {
			sb.WriteString(v)
		}
		i = j + len(v)
	}
	return sb.String()
}

// instantiateAt: the function indexes slice s at idx; every recorded fact that speaks about the
// elements of s is stated for idx.
func (fx *FnExec) instantiateAt(s, idx string) {
	if !fx.instantiate || len(fx.qfacts) == 0 {
		return
	}
	key := "(s.arr " + s + ")"
	done := map[string]bool{}
	for _, q := range fx.qfacts {
		if !strings.Contains(q.body, key) {
			continue
		}
		inst := replaceVar(q.body, q.v, idx)
		if strings.HasPrefix(inst, "(!") {
			// drop a pattern annotation
			_, a := sexprArgs(inst)
			if len(a) >= 1 {
				inst = a[0]
			}
		}
		f := inst
		for k := len(q.guards) - 1; k >= 0; k-- {
			f = "(=> " + q.guards[k] + " " + f + ")"
		}
		if q.pc != "" && q.pc != "true" {
			f = "(=> " + q.pc + " " + f + ")"
		}
		if done[f] {
			continue
		}
		done[f] = true
		fx.assume(f)
	}
}
