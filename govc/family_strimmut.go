package main

// Strings are modelled as immutable values (DESIGN.md 10.7). unsafe.String, unsafe.Slice over string
// data and pointer casts between *[]byte and *string create strings that share memory with a
// buffer that can be written later, which falsifies that model for every property at once and is
// the classic way a pooled buffer leaks into a result that was already handed out (C02, C18).
// This family finds every such construction in the package; none exists on the reference tree.

import (
	"fmt"
	"go/types"

	"golang.org/x/tools/go/ssa"
)

func init() {
	// (claimed by every property: "a string is a value" carries every postcondition that speaks about
	// strings - the text a macro call yields, an escaped value, a token's text, a loaded source)
	for _, p := range []string{"C01", "C02", "C03", "C04", "C05", "C06", "C07", "C08", "C09", "C10", "C11", "C12", "C13", "C14", "C15", "C16", "C17", "C18", "C19", "C20"} {
		families[p] = append(families[p], stringAliasFamily)
	}
}

func stringAliasFamily(w *World, prop string) ([]*Obligation, []string) {
	var out []*Obligation
	nfn := 0
	for _, name := range sortedKeys(w.Funcs) {
		fn := w.Funcs[name]
		if len(fn.Blocks) == 0 {
			continue
		}
		nfn++
		k := 0
		add := func(in ssa.Instruction, what string) {
			k++
			pos, src := w.posAndSrc(in)
			out = append(out, &Obligation{Name: fmt.Sprintf("%s/stralias#%d", name, k), Kind: "stralias", Func: name, Pos: pos, Src: src, PC: "true", Props: []string{prop}, Goal: "no aliasing string",
				Comment: what + ": the string shares memory with bytes that can be rewritten (strings are values everywhere else)", Custom: "(set-logic ALL)(assert true)"})
		}
		for _, b := range fn.Blocks {
			for _, in := range b.Instrs {
				switch x := in.(type) {
				case *ssa.Call:
					if bi, ok := x.Call.Value.(*ssa.Builtin); ok {
						if bi.Name() == "String" && len(x.Call.Args) == 2 {
							add(in, "unsafe.String")
						}
						if bi.Name() == "Slice" && len(x.Call.Args) == 2 {
							// unsafe.Slice(unsafe.StringData(s), n): a writable view of a string
							if c2, ok := x.Call.Args[0].(*ssa.Call); ok {
								if b2, ok := c2.Call.Value.(*ssa.Builtin); ok && b2.Name() == "StringData" {
									add(in, "unsafe.Slice over the bytes of a string")
								}
							}
						}
					}
				case *ssa.Convert:
					// (*string)(unsafe.Pointer(&bytes)) and the reverse
					if pt, ok := x.Type().Underlying().(*types.Pointer); ok {
						if bt, ok := x.X.Type().Underlying().(*types.Basic); ok && bt.Kind() == types.UnsafePointer {
							if eb, ok := pt.Elem().Underlying().(*types.Basic); ok && eb.Info()&types.IsString != 0 {
								add(in, "pointer cast to *string")
							}
						}
					}
				}
			}
		}
	}
	if len(out) == 0 {
		out = append(out, &Obligation{Name: "package/stralias#0", Kind: "stralias", Func: "package", PC: "true", Props: []string{prop}, Goal: "no aliasing string",
			Comment: fmt.Sprintf("no function of the package (%d examined) builds a string that aliases writable bytes", nfn), Custom: "(set-logic ALL)(assert false)"})
	}
	return out, []string{fmt.Sprintf("functions examined for strings aliasing writable memory: %d", nfn)}
}
