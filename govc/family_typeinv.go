package main

// Object invariants (contract kind `typeinv T`): an invariant over the fields of a *T (and of objects
// reached from it) that every function may assume for a *T that existed before it was called.
// It is discharged for the whole package by two kinds of obligations:
//
//   typeinv-store  every store to a footprint field (flag footprint T.f U.g ...) goes to an object
//                  created by the storing activation: an existing object's footprint never changes;
//   typeinv-new    every function that returns a *T it created itself establishes the invariant for
//                  it (a returned *T that is not fresh satisfies it by the assumption).
//
// Together: a *T satisfies its invariant from the moment it leaves its constructor, for ever.

import (
	"fmt"
	"go/types"
	"regexp"
	"strings"

	"golang.org/x/tools/go/ssa"
)

func init() {
	for _, p := range []string{"C05"} {
		families[p] = append(families[p], typeInvFamily)
	}
}

var identX = regexp.MustCompile(`\bx\b`)

func typeInvFamily(w *World, prop string) ([]*Obligation, []string) {
	var out []*Obligation
	var notes []string
	for _, ti := range w.Contracts.Order {
		if ti.Kind != "typeinv" || !hasProp(ti.Props, prop) {
			continue
		}
		foot := map[string]bool{}
		for _, f := range strings.Fields(ti.Flags["footprint"]) {
			foot[f] = true
		}
		nstores, nctors := 0, 0
		for _, name := range sortedKeys(w.Funcs) {
			fn := w.Funcs[name]
			if len(fn.Blocks) == 0 {
				continue
			}
			writes := false
			for _, b := range fn.Blocks {
				for _, in := range b.Instrs {
					if st, ok := in.(*ssa.Store); ok {
						if fa, ok := st.Addr.(*ssa.FieldAddr); ok {
							if pt, ok := fa.X.Type().Underlying().(*types.Pointer); ok {
								if s, ok := pt.Elem().Underlying().(*types.Struct); ok && foot[namedTypeName(pt.Elem())+"."+s.Field(fa.Field).Name()] {
									writes = true
								}
							}
						}
					}
				}
			}
			// results of type *T
			var retIdx []int
			res := fn.Signature.Results()
			for i := 0; i < res.Len(); i++ {
				if pt, ok := res.At(i).Type().Underlying().(*types.Pointer); ok && namedTypeName(pt.Elem()) == ti.Name {
					retIdx = append(retIdx, i)
				}
			}
			if !writes && len(retIdx) == 0 {
				continue
			}
			ct := deriveContract(w.Contracts.ByName[name], name)
			const mark = "object invariant established: "
			for _, k := range retIdx {
				rn := "ret"
				if res.Len() > 1 {
					rn = fmt.Sprintf("ret%d", k)
				}
				for _, inv := range ti.Requires {
					text := rn + " == nil || !freshRef(" + rn + ") || (" + identX.ReplaceAllString(inv.Text, rn) + ")"
					a, err := parseCExpr(text)
					if err != nil {
						continue
					}
					ct.Ensures = append(ct.Ensures, &CExpr{Text: mark + text, Props: []string{prop}, ast: a})
				}
			}
			fx := newFnExec(w, fn, ct)
			fx.onStore = func(fx *FnExec, in ssa.Instruction, pl *Place, v Val) {
				if _, ok := in.(*ssa.Store); !ok {
					return
				}
				if pl.Kind != PField || pl.Base != nil || !foot[pl.SName+"."+pl.Struct.Field(pl.Field).Name()] {
					return
				}
				nstores++
				o := fx.oblige("typeinv-store", "(> "+pl.Ref+" "+fx.allocBase()+")", in, "field "+pl.SName+"."+pl.Struct.Field(pl.Field).Name()+" (footprint of the object invariant of "+ti.Name+") is written only on an object this activation created")
				o.Props = []string{prop}
			}
			obls, err := fx.Run()
			if err != nil {
				out = append(out, &Obligation{Name: name + "/typeinv-store#0", Kind: "typeinv-store", Func: name, Goal: "false", PC: "true", Props: []string{prop}, Comment: "translation failed: " + err.Error(), Custom: "(assert true)"})
				continue
			}
			for _, o := range obls {
				switch {
				case o.Kind == "typeinv-store":
					out = append(out, o)
				case o.Kind == "post" && strings.Contains(o.Comment, mark):
					nctors++
					o.Kind = "typeinv-new"
					o.Name = strings.Replace(o.Name, "/post#", "/typeinv-new#", 1)
					o.Props = []string{prop}
					out = append(out, o)
				}
			}
		}
		notes = append(notes, fmt.Sprintf("object invariant of %s: %d store sites to its footprint, %d returns of a %s checked", ti.Name, nstores, nctors, ti.Name))
	}
	return out, notes
}
