package main

// World: the loaded program, naming, call graph summaries.

import (
	"fmt"
	"go/ast"
	"go/token"
	"go/types"
	"os"
	"sort"
	"strings"
	"sync"

	"golang.org/x/tools/go/packages"
	"golang.org/x/tools/go/ssa"
	"golang.org/x/tools/go/ssa/ssautil"
)

type World struct {
	Prog        *ssa.Program
	Pkg         *ssa.Package
	PPkg        *packages.Package
	Fset        *token.FileSet
	Funcs       map[string]*ssa.Function // by display name
	AllFuncs    []*ssa.Function          // package functions incl. closures, deterministic order
	structs     map[string]*structInfo
	structOrder []string
	anonStructs map[string]string
	heapSorts   map[string]string
	typeTags    map[string]int
	tagTypes    []types.Type
	globals     map[*ssa.Global]int
	globalList  []*ssa.Global
	funcIDs     map[*ssa.Function]int
	modSum      map[*ssa.Function]map[string]bool // heap names possibly written (excluding fresh objects)
	ghostSum    map[*ssa.Function]map[string]bool // ghost variables possibly assigned
	ghostOnce   sync.Once
	modAll      map[*ssa.Function]bool
	srcCache    map[string][]byte
	Contracts   *ContractFile
	RepoDir     string
	impls       map[string][]*ssa.Function // interface method key -> implementations in package
	addrTaken   map[string][]*ssa.Function // signature string -> functions used as values
	pools       map[interface{}]*poolInfo
	lockKinds   map[*ssa.Function]map[string]bool
}

func displayName(f *ssa.Function) string {
	// "(*Parser).parseFor", "toInt", "functionParent$1"
	s := f.String()
	s = strings.ReplaceAll(s, "github.com/semihalev/twig.", "")
	return s
}

func loadWorld(dir string) (*World, error) {
	cfg := &packages.Config{Mode: packages.LoadAllSyntax, Dir: dir, BuildFlags: []string{"-tags=verif"}}
	pkgs, err := packages.Load(cfg, ".")
	if err != nil {
		return nil, err
	}
	if len(pkgs) != 1 {
		return nil, fmt.Errorf("expected 1 package, got %d", len(pkgs))
	}
	if len(pkgs[0].Errors) > 0 {
		return nil, fmt.Errorf("package errors: %v", pkgs[0].Errors)
	}
	prog, spkgs := ssautil.AllPackages(pkgs, ssa.InstantiateGenerics|ssa.GlobalDebug)
	prog.Build()
	w := &World{Prog: prog, Pkg: spkgs[0], PPkg: pkgs[0], Fset: pkgs[0].Fset,
		Funcs: map[string]*ssa.Function{}, structs: map[string]*structInfo{}, anonStructs: map[string]string{},
		heapSorts: map[string]string{}, typeTags: map[string]int{}, globals: map[*ssa.Global]int{},
		funcIDs: map[*ssa.Function]int{}, srcCache: map[string][]byte{}, RepoDir: dir,
		impls: map[string][]*ssa.Function{}, addrTaken: map[string][]*ssa.Function{}}
	// collect functions: members, methods, closures
	seen := map[*ssa.Function]bool{}
	var add func(f *ssa.Function)
	add = func(f *ssa.Function) {
		if f == nil || seen[f] {
			return
		}
		seen[f] = true
		if f.Pkg != w.Pkg {
			return
		}
		w.AllFuncs = append(w.AllFuncs, f)
		for _, a := range f.AnonFuncs {
			add(a)
		}
	}
	for _, m := range w.Pkg.Members {
		switch m := m.(type) {
		case *ssa.Function:
			add(m)
		case *ssa.Type:
			for _, t := range []types.Type{m.Type(), types.NewPointer(m.Type())} {
				ms := prog.MethodSets.MethodSet(t)
				for i := 0; i < ms.Len(); i++ {
					add(prog.MethodValue(ms.At(i)))
				}
			}
		case *ssa.Global:
			_ = w.globalID(m)
		}
	}
	sort.Slice(w.AllFuncs, func(i, j int) bool { return displayName(w.AllFuncs[i]) < displayName(w.AllFuncs[j]) })
	for _, f := range w.AllFuncs {
		if f.Synthetic != "" && !strings.Contains(f.Name(), "$") {
			// wrappers/bound methods: skip from naming, but keep init
			if f.Name() != "init" {
				continue
			}
		}
		w.Funcs[displayName(f)] = f
	}
	// deterministic global ids
	var gl []*ssa.Global
	for _, m := range w.Pkg.Members {
		if g, ok := m.(*ssa.Global); ok {
			gl = append(gl, g)
		}
	}
	sort.Slice(gl, func(i, j int) bool { return gl[i].Name() < gl[j].Name() })
	w.globals = map[*ssa.Global]int{}
	w.globalList = nil
	for _, g := range gl {
		w.globalID(g)
	}
	w.buildCallInfo()
	w.computeMods()
	return w, nil
}

func (w *World) globalID(g *ssa.Global) int {
	if id, ok := w.globals[g]; ok {
		return id
	}
	id := len(w.globalList) + 1
	w.globals[g] = id
	w.globalList = append(w.globalList, g)
	return id
}

func (w *World) funcRef(fx *FnExec, f *ssa.Function) string {
	id, ok := w.funcIDs[f]
	if !ok {
		id = len(w.funcIDs) + 1
		w.funcIDs[f] = id
	}
	return smtInt(int64(1000000 + id))
}

// normType renders a type with aliases resolved so that `any` and `interface{}` coincide.
func normType(t types.Type) string {
	t = types.Unalias(t)
	switch u := t.(type) {
	case *types.Basic:
		switch u.Kind() {
		case types.Uint8:
			return "uint8"
		case types.Int32:
			return "int32"
		}
		return u.Name()
	case *types.Named:
		s := u.Obj().Name()
		if u.Obj().Pkg() != nil {
			s = u.Obj().Pkg().Path() + "." + s
		}
		if ta := u.TypeArgs(); ta != nil && ta.Len() > 0 {
			var as []string
			for i := 0; i < ta.Len(); i++ {
				as = append(as, normType(ta.At(i)))
			}
			s += "[" + strings.Join(as, ",") + "]"
		}
		return s
	case *types.Pointer:
		return "*" + normType(u.Elem())
	case *types.Slice:
		return "[]" + normType(u.Elem())
	case *types.Array:
		return fmt.Sprintf("[%d]%s", u.Len(), normType(u.Elem()))
	case *types.Map:
		return "map[" + normType(u.Key()) + "]" + normType(u.Elem())
	case *types.Interface:
		if u.NumMethods() == 0 && u.NumEmbeddeds() == 0 {
			return "any"
		}
	}
	return types.TypeString(t, nil)
}

func (w *World) typeTag(t types.Type) int {
	key := normType(t)
	if id, ok := w.typeTags[key]; ok {
		return id
	}
	id := len(w.tagTypes) + 1
	w.typeTags[key] = id
	w.tagTypes = append(w.tagTypes, t)
	return id
}

func (w *World) tagName(id int) string {
	if id >= 1 && id <= len(w.tagTypes) {
		return types.TypeString(w.tagTypes[id-1], func(p *types.Package) string { return p.Name() })
	}
	return fmt.Sprintf("type#%d", id)
}

func (w *World) source(file string) []byte {
	if b, ok := w.srcCache[file]; ok {
		return b
	}
	b, _ := os.ReadFile(file)
	w.srcCache[file] = b
	return b
}

// posAndSrc gives "file:line" and the source text of the innermost expression at the instruction.
func (w *World) posAndSrc(in ssa.Instruction) (string, string) {
	pos := in.Pos()
	if !pos.IsValid() {
		if v, ok := in.(ssa.Value); ok {
			// try operands' positions
			_ = v
		}
		return "", ""
	}
	p := w.Fset.Position(pos)
	short := p.Filename
	if i := strings.LastIndex(short, "/"); i >= 0 {
		short = short[i+1:]
	}
	src := w.source(p.Filename)
	line := ""
	if p.Offset < len(src) {
		// whole line, trimmed
		s, e := p.Offset, p.Offset
		for s > 0 && src[s-1] != '\n' {
			s--
		}
		for e < len(src) && src[e] != '\n' {
			e++
		}
		line = strings.TrimSpace(string(src[s:e]))
	}
	return fmt.Sprintf("%s:%d", short, p.Line), line
}

// exprText returns the text of the smallest AST expression starting at pos.
func (w *World) exprTextAt(pos token.Pos) string {
	if !pos.IsValid() {
		return ""
	}
	for _, f := range w.PPkg.Syntax {
		if f.Pos() <= pos && pos < f.End() {
			var best ast.Node
			ast.Inspect(f, func(n ast.Node) bool {
				if n == nil {
					return false
				}
				if n.Pos() <= pos && pos < n.End() {
					if e, ok := n.(ast.Expr); ok {
						if best == nil || (n.End()-n.Pos()) <= (best.End()-best.Pos()) {
							// prefer the expression that *contains* pos as its operator position
							best = e
						}
					}
					return true
				}
				return false
			})
			if best != nil {
				p := w.Fset.Position(best.Pos())
				e := w.Fset.Position(best.End())
				src := w.source(p.Filename)
				if e.Offset <= len(src) {
					return string(src[p.Offset:e.Offset])
				}
			}
		}
	}
	return ""
}

// ---------------------------------------------------------------- call info

func sigKey(s *types.Signature) string {
	// signature without receiver
	return types.TypeString(types.NewSignatureType(nil, nil, nil, s.Params(), s.Results(), s.Variadic()), nil)
}

func (w *World) buildCallInfo() {
	// address-taken functions: any use of a *ssa.Function as an operand other than call target,
	// and MakeClosure targets
	note := func(f *ssa.Function) {
		if f == nil {
			return
		}
		k := sigKey(f.Signature)
		for _, g := range w.addrTaken[k] {
			if g == f {
				return
			}
		}
		w.addrTaken[k] = append(w.addrTaken[k], f)
	}
	for _, f := range w.AllFuncs {
		for _, b := range f.Blocks {
			for _, in := range b.Instrs {
				switch x := in.(type) {
				case *ssa.MakeClosure:
					if fn, ok := x.Fn.(*ssa.Function); ok {
						note(fn)
					}
				}
				var ops []*ssa.Value
				ops = in.Operands(ops)
				for i, op := range ops {
					if op == nil || *op == nil {
						continue
					}
					if fn, ok := (*op).(*ssa.Function); ok {
						if c, isCall := in.(ssa.CallInstruction); isCall && i == 0 && c.Common().Value == fn && !c.Common().IsInvoke() {
							continue
						}
						note(fn)
					}
				}
			}
		}
	}
	// bound-method closures ($bound) forward to the method: register the underlying method too
	for k, fs := range w.addrTaken {
		for _, f := range fs {
			if f.Synthetic != "" && strings.HasSuffix(f.Name(), "$bound") {
				// find the called method inside
				for _, b := range f.Blocks {
					for _, in := range b.Instrs {
						if c, ok := in.(ssa.CallInstruction); ok {
							if callee := c.Common().StaticCallee(); callee != nil && callee.Pkg == w.Pkg {
								found := false
								for _, g := range w.addrTaken[k] {
									if g == callee {
										found = true
									}
								}
								if !found {
									w.addrTaken[k] = append(w.addrTaken[k], callee)
								}
							}
						}
					}
				}
			}
		}
	}
}

// implementations of an interface method among package types
func (w *World) implsOf(recv types.Type, m *types.Func) []*ssa.Function {
	key := types.TypeString(recv, nil) + "." + m.Name()
	if r, ok := w.impls[key]; ok {
		return r
	}
	iface, ok := recv.Underlying().(*types.Interface)
	var out []*ssa.Function
	if ok {
		for _, mem := range w.Pkg.Members {
			t, ok := mem.(*ssa.Type)
			if !ok {
				continue
			}
			for _, cand := range []types.Type{t.Type(), types.NewPointer(t.Type())} {
				if _, isIface := cand.Underlying().(*types.Interface); isIface {
					continue
				}
				if types.Implements(cand, iface) {
					sel := w.Prog.MethodSets.MethodSet(cand).Lookup(m.Pkg(), m.Name())
					if sel != nil {
						if fn := w.Prog.MethodValue(sel); fn != nil {
							dup := false
							for _, o := range out {
								if o == fn {
									dup = true
								}
							}
							if !dup {
								out = append(out, fn)
							}
						}
					}
				}
			}
		}
	}
	sort.Slice(out, func(i, j int) bool { return out[i].String() < out[j].String() })
	w.impls[key] = out
	return out
}

// callTargets: possible in-package targets of a call; unknownExt=true when a target outside the
// package (user callback / std) may be called.
func (w *World) callTargets(c *ssa.CallCommon) (targets []*ssa.Function, unknownExt bool) {
	if c.IsInvoke() {
		impls := w.implsOf(c.Value.Type(), c.Method)
		return impls, true
	}
	if f := c.StaticCallee(); f != nil {
		return []*ssa.Function{f}, false
	}
	if _, ok := c.Value.(*ssa.Builtin); ok {
		return nil, false
	}
	sig, ok := c.Value.Type().Underlying().(*types.Signature)
	if !ok {
		return nil, true
	}
	return w.addrTaken[sigKey(sig)], true
}

// ---------------------------------------------------------------- mod analysis

// rootFresh reports whether the address/collection value is rooted in an object allocated in the
// same function (Alloc, MakeSlice, MakeMap, composite) — writes to it are invisible to callers.
func rootFresh(v ssa.Value, depth int) bool {
	if depth > 20 {
		return false
	}
	switch x := v.(type) {
	case *ssa.Alloc:
		return true
	case *ssa.MakeSlice, *ssa.MakeMap:
		return true
	case *ssa.TypeAssert:
		// pool.Get().(*T): the pool hands out an object nobody else can reach
		if c, ok := x.X.(*ssa.Call); ok {
			if f := c.Call.StaticCallee(); f != nil && f.String() == "(*sync.Pool).Get" {
				return true
			}
		}
		return false
	case *ssa.FieldAddr:
		return rootFresh(x.X, depth+1)
	case *ssa.IndexAddr:
		return rootFresh(x.X, depth+1)
	case *ssa.Slice:
		return rootFresh(x.X, depth+1)
	case *ssa.ChangeType:
		return rootFresh(x.X, depth+1)
	case *ssa.Convert:
		// []rune(s), []byte(s) allocate
		if _, ok := x.Type().Underlying().(*types.Slice); ok {
			if b, ok := x.X.Type().Underlying().(*types.Basic); ok && b.Info()&types.IsString != 0 {
				return true
			}
		}
	case *ssa.Phi:
		for _, e := range x.Edges {
			if e == v {
				continue
			}
			if !rootFreshNoPhi(e, depth+1) {
				return false
			}
		}
		return true
	}
	return false
}

func rootFreshNoPhi(v ssa.Value, depth int) bool {
	if _, ok := v.(*ssa.Phi); ok {
		return false
	}
	return rootFresh(v, depth)
}

func (w *World) heapsOfType(t types.Type, into map[string]bool) {
	// all heaps that a store of a whole value of type t through a pointer touches
	if st, ok := t.Underlying().(*types.Struct); ok && st.NumFields() > 0 {
		si := w.structInfoOf(t)
		for i := 0; i < st.NumFields(); i++ {
			into[fieldHeapName(si.name, st, i)] = true
		}
		return
	}
	if arr, ok := t.Underlying().(*types.Array); ok {
		into[w.elemHeapName(arr.Elem())] = true
		return
	}
	into["C_"+sortID(w.sortOf(t))] = true
}

// typeID: heaps are keyed by Go type (two values of different types never alias), with the
// package path stripped for readability.
func typeID(t types.Type) string {
	s := normType(t)
	s = strings.ReplaceAll(s, "github.com/semihalev/twig.", "")
	return sanitize(s)
}

func (w *World) elemHeapName(elem types.Type) string { return "E_" + typeID(elem) }

func (w *World) mapHeapNames(mt *types.Map) (string, string, string) {
	k, v := typeID(mt.Key()), typeID(mt.Elem())
	return "MD_" + k + "_" + v, "MV_" + k + "_" + v, "ML_" + k + "_" + v
}

// directMods: heaps written by the instruction itself (not via calls). includeFresh: also
// writes to objects allocated in this function.
func (w *World) directMods(in ssa.Instruction, includeFresh bool, into map[string]bool) {
	switch x := in.(type) {
	case *ssa.Store:
		if !includeFresh && rootFresh(x.Addr, 0) {
			return
		}
		switch a := x.Addr.(type) {
		case *ssa.FieldAddr:
			// innermost field of a by-ref struct, or of a struct held in an element/cell
			w.fieldAddrHeaps(a, into)
		case *ssa.IndexAddr:
			w.indexAddrHeaps(a, into)
		default:
			w.heapsOfType(x.Addr.Type().Underlying().(*types.Pointer).Elem(), into)
		}
	case *ssa.MapUpdate:
		if !includeFresh && rootFresh(x.Map, 0) {
			return
		}
		if mt, ok := x.Map.Type().Underlying().(*types.Map); ok {
			a, b, c := w.mapHeapNames(mt)
			into[a], into[b], into[c] = true, true, true
		}
	}
}

func (w *World) fieldAddrHeaps(a *ssa.FieldAddr, into map[string]bool) {
	pt := a.X.Type().Underlying().(*types.Pointer).Elem()
	st := pt.Underlying().(*types.Struct)
	switch base := a.X.(type) {
	case *ssa.IndexAddr:
		// struct stored by value in an array element
		w.indexAddrHeaps(base, into)
		return
	case *ssa.FieldAddr:
		// nested struct by value inside another struct: the outer field heap holds the whole value
		w.fieldAddrHeaps(base, into)
		return
	}
	into[fieldHeapName(w.structName(pt), st, a.Field)] = true
}

func (w *World) indexAddrHeaps(a *ssa.IndexAddr, into map[string]bool) {
	var elem types.Type
	switch t := a.X.Type().Underlying().(type) {
	case *types.Slice:
		elem = t.Elem()
	case *types.Pointer:
		elem = t.Elem().Underlying().(*types.Array).Elem()
	default:
		return
	}
	into[w.elemHeapName(elem)] = true
}

// builtinMods handles append/copy/delete/clear.
func (w *World) builtinMods(c *ssa.CallCommon, includeFresh bool, into map[string]bool) {
	b, ok := c.Value.(*ssa.Builtin)
	if !ok {
		return
	}
	switch b.Name() {
	case "append", "copy":
		if len(c.Args) > 0 {
			if !includeFresh && rootFresh(c.Args[0], 0) {
				return
			}
			if st, ok := c.Args[0].Type().Underlying().(*types.Slice); ok {
				into[w.elemHeapName(st.Elem())] = true
			}
		}
	case "delete", "clear":
		if len(c.Args) > 0 {
			if !includeFresh && rootFresh(c.Args[0], 0) {
				return
			}
			if mt, ok := c.Args[0].Type().Underlying().(*types.Map); ok {
				a, bb, cc := w.mapHeapNames(mt)
				into[a], into[bb], into[cc] = true, true, true
			}
			if st, ok := c.Args[0].Type().Underlying().(*types.Slice); ok {
				into[w.elemHeapName(st.Elem())] = true
			}
		}
	}
}

// stdMods: heaps written by a std-library callee through its arguments.
func (w *World) stdMods(f *ssa.Function, c *ssa.CallCommon, into map[string]bool) {
	name := f.String()
	mutSlice := func(i int) {
		if i < len(c.Args) {
			if st, ok := c.Args[i].Type().Underlying().(*types.Slice); ok {
				into[w.elemHeapName(st.Elem())] = true
			}
		}
	}
	switch {
	case strings.HasPrefix(name, "sort."):
		mutSlice(0)
	case name == "encoding/binary.Read":
		// writes through the data pointer
		if len(c.Args) == 3 {
			w.pointeeHeaps(c.Args[2], into)
		}
	case strings.HasPrefix(name, "encoding/json.Unmarshal"), strings.HasPrefix(name, "(*encoding/gob.Decoder).Decode"):
		if len(c.Args) > 0 {
			w.pointeeHeaps(c.Args[len(c.Args)-1], into)
		}
	case strings.HasSuffix(name, ".Read") || strings.HasSuffix(name, ".ReadFull") || name == "io.ReadFull":
		mutSlice(len(c.Args) - 1)
	}
}

func (w *World) pointeeHeaps(v ssa.Value, into map[string]bool) {
	// argument may be an interface wrapping a pointer
	if mi, ok := v.(*ssa.MakeInterface); ok {
		v = mi.X
	}
	if pt, ok := v.Type().Underlying().(*types.Pointer); ok {
		w.heapsOfType(pt.Elem(), into)
	}
}

func (w *World) computeMods() {
	w.modSum = map[*ssa.Function]map[string]bool{}
	w.modAll = map[*ssa.Function]bool{}
	for _, f := range w.AllFuncs {
		m := map[string]bool{}
		for _, b := range f.Blocks {
			for _, in := range b.Instrs {
				w.directMods(in, false, m)
				if c, ok := in.(ssa.CallInstruction); ok {
					w.builtinMods(c.Common(), false, m)
					if callee := c.Common().StaticCallee(); callee != nil && callee.Pkg != w.Pkg {
						w.stdMods(callee, c.Common(), m)
					}
				}
			}
		}
		w.modSum[f] = m
	}
	// propagate over calls to fixpoint
	changed := true
	for changed {
		changed = false
		for _, f := range w.AllFuncs {
			m := w.modSum[f]
			for _, b := range f.Blocks {
				for _, in := range b.Instrs {
					c, ok := in.(ssa.CallInstruction)
					if !ok {
						continue
					}
					targets, _ := w.callTargets(c.Common())
					for _, t := range targets {
						if t.Pkg != w.Pkg {
							continue
						}
						for k := range w.modSum[t] {
							if !m[k] {
								m[k] = true
								changed = true
							}
						}
					}
				}
			}
		}
	}
}

// contractForCallW: the contract a call site is checked against (interface method, static callee,
// named function type).
func (w *World) contractForCallW(c *ssa.CallCommon) *Contract {
	cf := w.Contracts
	if cf == nil {
		return nil
	}
	if c.IsInvoke() {
		tn := namedTypeName(c.Value.Type())
		if tn == "" {
			return nil
		}
		return cf.ByName["iface "+tn+"."+c.Method.Name()]
	}
	if f := c.StaticCallee(); f != nil {
		return cf.ByName[calleeName(f)]
	}
	if _, ok := c.Value.(*ssa.Builtin); ok {
		return nil
	}
	if tn := namedTypeName(c.Value.Type()); tn != "" {
		return cf.ByName["functype "+tn]
	}
	return nil
}

// ghostsSetBy: the ghost variables a package function may assign, directly (a call whose contract
// has a ghostset clause) or through the functions it calls. A call to such a function that does not
// itself declare the ghost's new value leaves the ghost arbitrary in the caller.
func (w *World) ghostsSetBy(f *ssa.Function) map[string]bool {
	w.ghostOnce.Do(func() {
		w.ghostSum = map[*ssa.Function]map[string]bool{}
		for _, f := range w.AllFuncs {
			m := map[string]bool{}
			for _, b := range f.Blocks {
				for _, in := range b.Instrs {
					if c, ok := in.(ssa.CallInstruction); ok {
						if ct := w.contractForCallW(c.Common()); ct != nil {
							for g := range ct.GhostSet {
								m[g] = true
							}
						}
					}
				}
			}
			w.ghostSum[f] = m
		}
		for changed := true; changed; {
			changed = false
			for _, f := range w.AllFuncs {
				m := w.ghostSum[f]
				for _, b := range f.Blocks {
					for _, in := range b.Instrs {
						c, ok := in.(ssa.CallInstruction)
						if !ok {
							continue
						}
						ct := w.contractForCallW(c.Common())
						if ct != nil && (ct.Pure || ct.Function) {
							continue
						}
						targets, _ := w.callTargets(c.Common())
						for _, t := range targets {
							if t.Pkg != w.Pkg {
								continue
							}
							for g := range w.ghostSum[t] {
								if (ct == nil || ct.GhostSet[g] == nil) && !m[g] {
									m[g] = true
									changed = true
								}
							}
						}
					}
				}
			}
		}
	})
	return w.ghostSum[f]
}

// callGhostHavoc: ghosts left arbitrary by a call (see ghostsSetBy).
func (w *World) callGhostHavoc(c *ssa.CallCommon, ct *Contract) []string {
	if ct != nil && (ct.Pure || ct.Function) {
		return nil
	}
	set := map[string]bool{}
	targets, _ := w.callTargets(c)
	for _, t := range targets {
		if t.Pkg != w.Pkg {
			continue
		}
		for g := range w.ghostsSetBy(t) {
			if ct == nil || ct.GhostSet[g] == nil {
				set[g] = true
			}
		}
	}
	return sortedKeys(set)
}

// instrMods: heaps possibly written by executing the instruction (including callees), as seen
// from inside the function (writes to own fresh objects included).
func (w *World) instrMods(fx *FnExec, in ssa.Instruction) ([]string, bool) {
	m := map[string]bool{}
	w.directMods(in, true, m)
	if c, ok := in.(ssa.CallInstruction); ok {
		w.builtinMods(c.Common(), true, m)
		if ct := fx.contractForCall(c.Common()); ct != nil && ct.HasModifies {
			for _, h := range fx.modifiesHeaps(ct, c.Common()) {
				m[h] = true
			}
		} else {
			targets, _ := w.callTargets(c.Common())
			for _, t := range targets {
				if t.Pkg != w.Pkg {
					w.stdMods(t, c.Common(), m)
					continue
				}
				for k := range w.modSum[t] {
					m[k] = true
				}
			}
		}
	}
	out := make([]string, 0, len(m))
	for k := range m {
		out = append(out, k)
	}
	sort.Strings(out)
	return out, false
}
