#!/bin/bash
# usage: mut.sh <prop> <file> <sed-expr> : apply a sed mutation to a scratch copy of /repo and run the check there
# (scratch copy is created under /tmp and removed afterwards)
prop="$1"; file="$2"; expr="$3"
d=$(mktemp -d /tmp/mut.XXXXXX)
(cd /repo && git ls-files -z | xargs -0 cp --parents -t "$d") 
cp /repo/verif_contracts.go "$d/" 2>/dev/null
sed -i "$expr" "$d/$file"
if diff -q /repo/$file $d/$file >/dev/null; then echo "MUTATION DID NOT APPLY"; rm -rf "$d"; exit 3; fi
(cd "$d" && . /verif/env.sh && go build . 2>&1 | head -5)
/verif/bin/govc check --repo "$d" "$prop" | grep -v "^  " | tail -4
rm -rf "$d"
