# sourced by every script: offline Go environment (see DESIGN.md §2)
export GOTC=/root/go/pkg/mod/golang.org/toolchain@v0.0.1-go1.24.1.linux-amd64
if [ -x "$GOTC/bin/go" ]; then
  export PATH="$GOTC/bin:$PATH"
  export GOTOOLCHAIN=local
else
  # fallback: newer pre-installed Go
  export PATH="/opt/veriftools/go1.26.8/bin:$PATH"
  export GOTOOLCHAIN=local
fi
export GOFLAGS=-mod=mod GOPROXY=off GOSUMDB=off CGO_ENABLED=0
export GOCACHE=${GOCACHE:-/root/.cache/go-build}
