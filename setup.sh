#!/bin/bash
# Builds the verifier from sources on disk only (vendored x/tools; no network).
set -e
cd "$(dirname "$0")"
. ./env.sh
mkdir -p bin evidence replays
(cd govc && GOFLAGS=-mod=vendor go build -o ../bin/govc .)
# canary: each solver must answer a trivial query
q=$(mktemp --suffix=.smt2); echo '(set-logic ALL)(declare-const x Int)(assert (> x 0))(assert (< x 0))(check-sat)' > $q
for s in z3 z3-new; do
  r=$($s $q | head -1); [ "$r" = "unsat" ] || { echo "solver $s failed canary: $r"; rm -f $q; exit 1; }
done
r=$(cvc5 $q | head -1); [ "$r" = "unsat" ] || { echo "cvc5 failed canary: $r"; rm -f $q; exit 1; }
rm -f $q
echo "setup ok"
