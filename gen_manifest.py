#!/usr/bin/env python3
# Generates MANIFEST.json from the table below (kept in one place so it is always valid).
import json, subprocess
claimed = json.load(open('/verif/manifest_table.json'))
hook_commits = subprocess.run(['git','-C','/repo','log','--format=%h','--','verif_contracts.go'],capture_output=True,text=True).stdout.split()
na = dict(claimed.get("not_applicable", {}))
for l in open('/verif/properties.jsonl'):
    pid = json.loads(l)["id"]
    if pid not in claimed["claimed"] and pid not in na:
        na[pid] = "not claimed yet: the contracts for this property are not written/discharging yet (build in progress, see DESIGN.md changelog); no verdict is produced"
checks = []
for pid, c in sorted(claimed['claimed'].items()):
    checks.append({
        "property_id": pid,
        "quick_cmd": f"./check {pid} --tier quick",
        "thorough_cmd": f"./check {pid} --tier thorough",
        "evidence_file": f"/verif/evidence/{pid}.json",
        "replay_cmd_template": "./replay.sh {path}",
        "engine": "govc",
        "level_claimed": {"category": "proof", "text": c["text"], "design_ref": c.get("design_ref", f"DESIGN.md §5 {pid}")},
        "level_note": c["note"],
        "technique": c.get("technique", "contract-based deductive verification: VCs generated from go/ssa of the real functions under //@ contracts, discharged by z3/cvc5"),
    })
m = {
    "version": 1,
    "setup_cmd": "./setup.sh",
    "hooks": {
        "guard": "verif",
        "enable": "govc loads /repo with -tags=verif; the only hook is the comment-only file verif_contracts.go (contracts as //@ lines)",
        "baseline_off_cmd": "cd /repo && go test -json -vet=off -count=1 -timeout 25m ./...",
        "source_commits": hook_commits,
        "add_only": True,
    },
    "engines": [{"name": "govc", "path": "/verif/govc", "serves_properties": sorted(claimed['claimed'].keys()),
                 "kind_free_text": "verification-condition generator for Go (go/ssa forward symbolic execution with contracts, loop invariants, heap model) + SMT back ends z3 4.8.12, z3 5.1.0, cvc5 1.0.3"}],
    "checks": checks,
    "notes": claimed.get("notes", ""),
    "not_applicable": [{"property_id": k, "reason": v} for k, v in sorted(na.items())],
}
json.dump(m, open('/verif/MANIFEST.json','w'), indent=1)
print("wrote MANIFEST.json with", len(checks), "checks,", len(m["not_applicable"]), "not_applicable")
