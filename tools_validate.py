#!/usr/bin/env python3
# validates MANIFEST.json and all evidence files against the schemas in /root/.vp
import json, sys, glob, jsonschema
ok = True
def check(path, schema):
    global ok
    try:
        jsonschema.validate(json.load(open(path)), json.load(open(schema)))
        print("valid  ", path)
    except Exception as e:
        ok = False
        print("INVALID", path, str(e)[:300])
check('/verif/MANIFEST.json', '/root/.vp/MANIFEST.schema.json')
for f in sorted(glob.glob('/verif/evidence/*.json')):
    check(f, '/root/.vp/EVIDENCE.schema.json')
sys.exit(0 if ok else 1)
